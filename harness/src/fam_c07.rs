// FAMILY: C07
//! C07: answers do not depend on parallelism, batching or scheduling.
//!
//! Every observation runs in a CHILD process (this binary re-executed with `--opt child=1`), one child per
//! (RAYON_NUM_THREADS, tokio worker count) pair, because rayon's global pool and `MemoryTableExec::output_partitions`
//! (= min(rayon threads, #batches) from 1000 rows on) are fixed per process.  The parent generates the cases from ONE
//! PRNG, streams them to the children and merges their answers.
//!
//! Case kinds
//!   {"kind":"scan","threads":t,"cuts":[rows per batch…]}
//!       table big(id BIGINT) with ids 0..n cut as given; `SELECT id FROM big` planned with t rayon threads.
//!       impl {"threads_seen":t,"declared":n,"parts":[[ids of partition 0],…],"beyond":"err"|"ok:<rows>"}
//!       (`beyond` = executing partition `declared`, which the contract must reject)
//!   {"kind":"ojoin","threads":t,"jt":"left"|"right"|"full","build":[[id,k]…],"probe":[[id,k]…],"bcuts":[…],"pcuts":[…],"swap":bool}
//!       `SELECT a.id, b.id FROM a <jt> JOIN b ON a.k = b.k`; every declared partition of the physical plan is executed
//!       CONCURRENTLY on its own tokio task (the shared match tracker of HashJoinExec runs under real threads), three
//!       repetitions, plus `ctx.sql`.  impl {"threads_seen","reps":[{"declared":n,"parts":[[[a.id,b.id]…]…]}…],"full":[[a.id,b.id]…]}
//!   {"kind":"tracker","threads":t,"a":[[id,k]…],"b":[[id,k]…],"acuts":[…],"bcuts":[…],"rank":[16 distinct ranks],"mode":"incr"|"serial"}
//!       `SELECT a.id, b.id FROM a FULL JOIN b ON a.k = b.k` (FULL: the shared match tracker is always active).  Every declared
//!       partition runs on its OWN OS thread; a `query_engine::verif` controller serialises the partitions' `fetch_add`s
//!       (yield points 21/22 of proposed hook-hashjoin) in the order given by `rank` (mode serial: a partition may not even
//!       publish, point 20, before its predecessors have counted themselves).  impl {"declared":n,"parts":[rows…],"order":[…requested],
//!       "log":[[id,partition]…],"hook":bool,"timeouts":k,"full":rows}.  Without the hook in /repo no yield point fires:
//!       hook=false, nothing is forced, only the outputs are compared.
//!   {"kind":"sql", …, "recuts":[1,2,3,5,6,7,10,12], "kids":[5]}   (stratum `aggcut`, tag s:aggcut)
//!       hand-written aggregate statements (global MIN/MAX/SUM/AVG/COUNT, a single scalar aggregate, GROUP BY + COUNT(DISTINCT))
//!       over ONE small table t0(id, a BIGINT, d DATE, f DOUBLE, s VARCHAR, g BIGINT) whose aggregated columns carry NULL runs at
//!       the start and/or the end, registered as one batch and re-cut into each of the listed batch counts, under the 1-thread and
//!       the 4-thread child: partial aggregation states of chunks that hold only NULLs must merge like any other
//!       (C07_merge_order).  Runs are named r<k>@t<threads>w<workers>.
//!   {"kind":"sql", …sqlgen case (mode meta)…, "recut":k}
//!       one generated statement under layouts {mem1, memb, rk = every table re-cut into k batches} × every child's
//!       (threads, workers), each through `ctx.sql`, plus `pp` = the union of the individually executed declared
//!       partitions of `ctx.physical_plan(sql)`.  impl {"runs":{"<layout>@t<threads>w<workers>": outcome,…},"decl":{name: partitions}}
use crate::common::*;
use crate::fams::fam_sql::sqlgen::catalog::{gen_catalog, CatOpts, Catalog, TableSpec};
use crate::fams::fam_sql::sqlgen::driver::make_case;
use crate::fams::fam_sql::sqlgen::exec::{batch_rows, err_kind, ExecCfg};
use crate::fams::fam_sql::sqlgen::gen::{Gen, GenOpts};
use crate::fams::fam_sql::sqlgen::{rows_json, Val};
use crate::rng::Rng;
use arrow::array::{ArrayRef, Int64Array};
use arrow::datatypes::{DataType, Field, Schema};
use arrow::record_batch::RecordBatch;
use futures::TryStreamExt;
use query_engine::physical::PhysicalOperator;
use query_engine::{ExecutionContext, QueryError};
use serde_json::{json, Value};
use std::io::{BufRead, BufReader, Write};
use std::process::{Child, ChildStdin, Command, Stdio};
use std::sync::Arc;

/// (RAYON_NUM_THREADS, tokio workers) of the children
const CHILDREN: [(usize, usize); 6] = [(1, 1), (2, 4), (3, 2), (8, 4), (16, 8), (4, 4)];
const MAX_ROWS_OUT: usize = 1500;

// ------------------------------------------------------------------------------------------------ child side
fn child_threads() -> (usize, usize) {
    let t = std::env::var("RAYON_NUM_THREADS").ok().and_then(|s| s.parse().ok()).unwrap_or(0);
    let w = std::env::var("IQE_TOKIO_WORKERS").ok().and_then(|s| s.parse().ok()).unwrap_or(2);
    (t, w)
}

fn runtime() -> &'static tokio::runtime::Runtime {
    static RT: std::sync::OnceLock<tokio::runtime::Runtime> = std::sync::OnceLock::new();
    RT.get_or_init(|| {
        let (_, w) = child_threads();
        tokio::runtime::Builder::new_multi_thread().worker_threads(w.max(1)).enable_all().build().expect("tokio runtime")
    })
}

fn err_json(e: &QueryError) -> Value { json!({"err": err_kind(e), "msg": e.to_string().chars().take(300).collect::<String>()}) }

fn rows_of(bs: &[RecordBatch]) -> Vec<Vec<Val>> { let mut rows = vec![]; for b in bs { batch_rows(b, &mut rows); } rows }

/// sort rows canonically when the statement fixes no order (bag semantics): equal bags then travel as equal lists
fn canon(mut rows: Vec<Vec<Val>>, ordered: bool) -> Vec<Vec<Val>> { if !ordered { rows.sort(); } rows }

fn guarded_v(f: impl FnOnce() -> Value) -> Value {
    match std::panic::catch_unwind(std::panic::AssertUnwindSafe(f)) {
        Ok(v) => v,
        Err(e) => {
            let msg = if let Some(s) = e.downcast_ref::<&str>() { s.to_string() } else if let Some(s) = e.downcast_ref::<String>() { s.clone() } else { "panic".into() };
            json!({"panic": msg.chars().take(300).collect::<String>()})
        }
    }
}

fn with_timeout<F: std::future::Future<Output = Value>>(f: F) -> Value {
    runtime().block_on(async {
        match tokio::time::timeout(std::time::Duration::from_secs(60), f).await { Ok(v) => v, Err(_) => json!({"err": "timeout", "msg": "no answer within 60 s"}) }
    })
}

fn id_batches(cuts: &[usize], cols: &[(&str, Vec<Option<i64>>)]) -> (Arc<Schema>, Vec<RecordBatch>) {
    let schema = Arc::new(Schema::new(cols.iter().map(|(n, _)| Field::new(*n, DataType::Int64, true)).collect::<Vec<_>>()));
    let mut out = vec![]; let mut at = 0;
    for &n in cuts {
        let arrays: Vec<ArrayRef> = cols.iter().map(|(_, v)| Arc::new(Int64Array::from(v[at..at + n].to_vec())) as ArrayRef).collect();
        out.push(RecordBatch::try_new(schema.clone(), arrays).unwrap());
        at += n;
    }
    (schema, out)
}

/// execute partition `p` of a plan and collect its rows
async fn exec_part(plan: Arc<dyn PhysicalOperator>, p: usize) -> Result<Vec<Vec<Val>>, QueryError> {
    let stream = plan.execute(p).await?;
    let bs: Vec<RecordBatch> = stream.try_collect().await?;
    Ok(rows_of(&bs))
}

fn child_scan(c: &Value) -> Value {
    let cuts: Vec<usize> = c["cuts"].as_array().map(|a| a.iter().map(|x| x.as_u64().unwrap_or(0) as usize).collect()).unwrap_or_default();
    let n: usize = cuts.iter().sum();
    let ids: Vec<Option<i64>> = (0..n as i64).map(Some).collect();
    let (schema, batches) = id_batches(&cuts, &[("id", ids)]);
    let mut ctx = ExecutionContext::new();
    ctx.register_table("big", schema, batches);
    guarded_v(|| with_timeout(async {
        let plan = match ctx.physical_plan("SELECT id FROM big") { Ok(p) => p, Err(e) => return err_json(&e) };
        let declared = plan.output_partitions();
        let mut parts = vec![];
        for p in 0..declared {
            match exec_part(plan.clone(), p).await {
                Ok(rows) => parts.push(json!(rows.iter().map(|r| match &r[0] { Val::I(i) => *i, _ => -1 }).collect::<Vec<i64>>())),
                Err(e) => parts.push(json!({"err": e.to_string().chars().take(120).collect::<String>()})),
            }
        }
        let beyond = match exec_part(plan.clone(), declared).await { Ok(rows) => format!("ok:{}", rows.len()), Err(_) => "err".to_string() };
        json!({"threads_seen": child_threads().0, "declared": declared, "parts": parts, "beyond": beyond})
    }))
}

fn pairs(v: &Value) -> Vec<(Option<i64>, Option<i64>)> {
    v.as_array().map(|a| a.iter().map(|r| (r[0].as_i64(), r[1].as_i64())).collect()).unwrap_or_default()
}

fn child_ojoin(c: &Value) -> Value {
    let cuts = |k: &str| -> Vec<usize> { c[k].as_array().map(|a| a.iter().map(|x| x.as_u64().unwrap_or(0) as usize).collect()).unwrap_or_default() };
    let mk = |rows: &Value, cuts: &[usize]| {
        let p = pairs(rows);
        id_batches(cuts, &[("id", p.iter().map(|x| x.0).collect()), ("k", p.iter().map(|x| x.1).collect())])
    };
    let (sa, ba) = mk(&c["build"], &cuts("bcuts"));
    let (sb, bb) = mk(&c["probe"], &cuts("pcuts"));
    let jt = match c["jt"].as_str().unwrap_or("left") { "right" => "RIGHT", "full" => "FULL", _ => "LEFT" };
    let (l, r) = if c["swap"].as_bool().unwrap_or(false) { ("b", "a") } else { ("a", "b") };
    let sql = format!("SELECT a.id, b.id FROM {} {} JOIN {} ON a.k = b.k", l, jt, r);
    let mk_ctx = || { let mut ctx = ExecutionContext::new(); ctx.register_table("a", sa.clone(), ba.clone()); ctx.register_table("b", sb.clone(), bb.clone()); ctx };
    let rowsj = |rows: &Vec<Vec<Val>>| rows_json(rows);
    guarded_v(|| with_timeout(async {
        let mut reps = vec![];
        for _ in 0..3 {
            // a FRESH plan per repetition: the tracker's counter lives in the plan's build cache
            let ctx = mk_ctx();
            let plan = match ctx.physical_plan(&sql) { Ok(p) => p, Err(e) => return err_json(&e) };
            let declared = plan.output_partitions();
            let handles: Vec<_> = (0..declared).map(|p| { let pl = plan.clone(); tokio::spawn(async move { exec_part(pl, p).await }) }).collect();
            let mut parts = vec![];
            for h in handles {
                match h.await {
                    Ok(Ok(rows)) => parts.push(rowsj(&rows)),
                    Ok(Err(e)) => parts.push(json!({"err": e.to_string().chars().take(120).collect::<String>()})),
                    Err(e) => parts.push(json!({"panic": e.to_string().chars().take(120).collect::<String>()})),
                }
            }
            reps.push(json!({"declared": declared, "parts": parts}));
        }
        let full = match mk_ctx().sql(&sql).await { Ok(r) => json!(rowsj(&canon(rows_of(&r.batches), false))), Err(e) => err_json(&e) };
        json!({"threads_seen": child_threads().0, "sql": sql, "reps": reps, "full": full})
    }))
}

fn recut(t: &TableSpec, k: usize) -> Vec<RecordBatch> {
    let n = t.rows.len();
    if n == 0 { return vec![]; }
    let k = k.clamp(1, n);
    (0..k).map(|i| t.batch_of(&t.rows[n * i / k..n * (i + 1) / k])).filter(|b| b.num_rows() > 0).collect()
}

fn child_sql(c: &Value) -> Value {
    let mut cat = Catalog::from_case(c);
    // neutraliser of finding C07-F2 (= C21-F8): the same statement over the same tables with every NULL of an integer
    // column replaced by a fresh non-NULL value
    if c["neutral"].as_str() == Some("no_int_null") {
        for t in cat.tables.iter_mut() {
            let int_cols: Vec<usize> = t.cols.iter().enumerate().filter(|(_, c)| matches!(c.cty.name(), "i64" | "i32")).map(|(i, _)| i).collect();
            for row in t.rows.iter_mut() { for &ci in &int_cols { if row[ci].is_null() { row[ci] = Val::I(7777); } } }
        }
    }
    let sql = c["sql"].as_str().unwrap_or("").to_string();
    let k = c["recut"].as_u64().unwrap_or(7) as usize;
    let ordered = c["plan"].get("sort").is_some() || c["plan"].get("limit").is_some();
    let (t, w) = child_threads();
    let recuts: Vec<usize> = c["recuts"].as_array().map(|a| a.iter().map(|x| x.as_u64().unwrap_or(1) as usize).collect()).unwrap_or_default();
    let names: Vec<String> = recuts.iter().map(|k| format!("r{}", k)).collect();
    let mut layouts: Vec<(&str, Box<dyn Fn(&TableSpec) -> Vec<RecordBatch>>)> = vec![("mem1", Box::new(|t: &TableSpec| t.single_batch()))];
    if recuts.is_empty() {
        layouts.push(("memb", Box::new(|t: &TableSpec| t.batches())));
        layouts.push(("rk", Box::new(move |t: &TableSpec| recut(t, k))));
    } else {
        // stratum aggcut: the same small table re-cut into each listed number of batches
        for (i, kk) in recuts.iter().enumerate() { let kk = *kk; layouts.push((names[i].as_str(), Box::new(move |t: &TableSpec| recut(t, kk)))); }
    }
    let mut runs = serde_json::Map::new();
    let mut decl = serde_json::Map::new();
    for (name, lay) in &layouts {
        let mk_ctx = || { let mut ctx = ExecutionContext::new(); for tb in &cat.tables { ctx.register_table(tb.name.clone(), tb.schema(), lay(tb)); } ctx };
        let key = format!("{}@t{}w{}", name, t, w);
        let out = guarded_v(|| with_timeout(async {
            match mk_ctx().sql(&sql).await { Ok(r) => json!({"ok": rows_json(&canon(rows_of(&r.batches), ordered))}), Err(e) => err_json(&e) }
        }));
        runs.insert(key, out);
        if *name == "mem1" || !recuts.is_empty() { continue; }
        // every declared partition executed individually (sequentially, fresh plan), union
        let key = format!("{}pp@t{}w{}", name, t, w);
        let mut declared = 0usize;
        let out = guarded_v(|| with_timeout(async {
            let ctx = mk_ctx();
            let plan = match ctx.physical_plan(&sql) { Ok(p) => p, Err(e) => return err_json(&e) };
            declared = plan.output_partitions();
            let mut all = vec![];
            for p in 0..declared.max(1) {
                match exec_part(plan.clone(), p).await { Ok(rows) => all.extend(rows), Err(e) => return json!({"err": err_kind(&e), "msg": format!("partition {} of {}: {}", p, declared, e).chars().take(300).collect::<String>()}) }
            }
            json!({"ok": rows_json(&canon(all, ordered))})
        }));
        decl.insert(key.clone(), json!(declared));
        runs.insert(key, out);
    }
    json!({"runs": Value::Object(runs), "decl": Value::Object(decl)})
}

// ---- scheduled replay of the tracker protocol on the real atomics
struct Sched { order: Vec<usize>, turn: usize, serial: bool, log: Vec<(u32, usize)>, timeouts: usize, hook: bool }
thread_local! { static PART: std::cell::Cell<Option<usize>> = const { std::cell::Cell::new(None) }; }

fn child_tracker(c: &Value) -> Value {
    let cuts = |k: &str| -> Vec<usize> { c[k].as_array().map(|a| a.iter().map(|x| x.as_u64().unwrap_or(0) as usize).collect()).unwrap_or_default() };
    let mk = |rows: &Value, cuts: &[usize]| {
        let p = pairs(rows);
        id_batches(cuts, &[("id", p.iter().map(|x| x.0).collect()), ("k", p.iter().map(|x| x.1).collect())])
    };
    let (sa, ba) = mk(&c["a"], &cuts("acuts"));
    let (sb, bb) = mk(&c["b"], &cuts("bcuts"));
    let sql = "SELECT a.id, b.id FROM a FULL JOIN b ON a.k = b.k";
    let rank: Vec<u64> = c["rank"].as_array().map(|a| a.iter().map(|x| x.as_u64().unwrap_or(0)).collect()).unwrap_or_default();
    let serial = c["mode"].as_str() == Some("serial");
    let mk_ctx = || { let mut ctx = ExecutionContext::new(); ctx.register_table("a", sa.clone(), ba.clone()); ctx.register_table("b", sb.clone(), bb.clone()); ctx };
    guarded_v(|| {
        let ctx = mk_ctx();
        let plan = match ctx.physical_plan(sql) { Ok(p) => p, Err(e) => return err_json(&e) };
        let declared = plan.output_partitions();
        let mut order: Vec<usize> = (0..declared).collect();
        order.sort_by_key(|p| (rank.get(*p % rank.len().max(1)).copied().unwrap_or(0), *p));
        let state = Arc::new((std::sync::Mutex::new(Sched { order: order.clone(), turn: 0, serial, log: vec![], timeouts: 0, hook: false }), std::sync::Condvar::new()));
        let st = state.clone();
        query_engine::verif::set_controller(Some(Arc::new(move |id: u32| {
            let p = match PART.with(|c| c.get()) { Some(p) => p, None => return };
            if !(20..=22).contains(&id) { return; }
            let (m, cv) = &*st;
            let mut g = m.lock().unwrap();
            g.hook = true;
            g.log.push((id, p));
            let pos = g.order.iter().position(|x| *x == p).unwrap_or(0);
            match id {
                20 | 21 => {
                    if id == 20 && !g.serial { return; }
                    let deadline = std::time::Instant::now() + std::time::Duration::from_secs(20);
                    while g.turn < pos {
                        let left = deadline.saturating_duration_since(std::time::Instant::now());
                        if left.is_zero() { g.timeouts += 1; break; }
                        g = cv.wait_timeout(g, left).unwrap().0;
                    }
                }
                _ => { if g.turn == pos { g.turn += 1; } cv.notify_all(); }
            }
        })));
        let handles: Vec<_> = (0..declared).map(|p| {
            let pl = plan.clone();
            std::thread::spawn(move || {
                PART.with(|c| c.set(Some(p)));
                let rt = tokio::runtime::Builder::new_current_thread().enable_all().build().expect("rt");
                rt.block_on(async { tokio::time::timeout(std::time::Duration::from_secs(60), exec_part(pl, p)).await })
            })
        }).collect();
        let mut parts = vec![];
        for h in handles {
            match h.join() {
                Ok(Ok(Ok(rows))) => parts.push(rows_json(&rows)),
                Ok(Ok(Err(e))) => parts.push(json!({"err": e.to_string().chars().take(120).collect::<String>()})),
                Ok(Err(_)) => parts.push(json!({"err": "timeout"})),
                Err(_) => parts.push(json!({"panic": "partition thread panicked"})),
            }
        }
        query_engine::verif::set_controller(None);
        let (log, hook, timeouts) = { let g = state.0.lock().unwrap(); (g.log.clone(), g.hook, g.timeouts) };
        let full = with_timeout(async { match mk_ctx().sql(sql).await { Ok(r) => json!(rows_json(&canon(rows_of(&r.batches), false))), Err(e) => err_json(&e) } });
        json!({"declared": declared, "parts": parts, "order": order, "log": log.iter().map(|(i, p)| json!([i, p])).collect::<Vec<_>>(), "hook": hook, "timeouts": timeouts, "full": full})
    })
}

fn child_main() {
    let stdin = std::io::stdin();
    let out = std::io::stdout();
    for line in stdin.lock().lines() {
        let line = match line { Ok(l) => l, Err(_) => break };
        if line.trim().is_empty() { continue; }
        let c: Value = serde_json::from_str(&line).unwrap_or(Value::Null);
        let r = match c["kind"].as_str().unwrap_or("") { "scan" => child_scan(&c), "ojoin" => child_ojoin(&c), "tracker" => child_tracker(&c), "sql" => child_sql(&c), _ => json!({"bad_case": true}) };
        let mut l = out.lock();
        let _ = writeln!(l, "{}", r);
        let _ = l.flush();
    }
}

// ------------------------------------------------------------------------------------------------ parent side
/// A child process = one (rayon threads, tokio workers) configuration.  Guards (LOAD_RULES): the child's address space is
/// capped at 4 GB (`ulimit -v`, a runaway statement aborts the child instead of eating the machine) and every request has a
/// wall-clock limit; a child that dies or does not answer in time is killed and replaced, the request reported as `lost`.
pub struct Kid { proc: Child, inp: ChildStdin, rx: std::sync::mpsc::Receiver<String>, pub threads: usize, pub workers: usize, fam: String, envs: Vec<(String, String)> }

fn spawn_kid(threads: usize, workers: usize) -> Kid { spawn_kid_with("C07", threads, workers, vec![]) }

/// child of family `fam` (re-executed with `--opt child=1`) with the given rayon / tokio sizes and extra environment
pub fn spawn_kid_with(fam: &str, threads: usize, workers: usize, envs: Vec<(String, String)>) -> Kid {
    let exe = std::env::current_exe().expect("exe");
    let mut cmd = Command::new("sh");
    cmd.arg("-c").arg(format!("ulimit -v 4194304; exec \"$0\" {} --opt child=1", fam)).arg(exe)
        .env("RAYON_NUM_THREADS", threads.to_string()).env("IQE_TOKIO_WORKERS", workers.to_string()).env("QE_IPC_CACHE", "0");
    for (k, v) in &envs { cmd.env(k, v); }
    let mut proc = cmd
        .stdin(Stdio::piped()).stdout(Stdio::piped()).stderr(Stdio::null()).spawn().expect("child");
    let inp = proc.stdin.take().unwrap();
    let out = proc.stdout.take().unwrap();
    let (tx, rx) = std::sync::mpsc::channel::<String>();
    std::thread::spawn(move || { for l in BufReader::new(out).lines() { match l { Ok(l) => { if tx.send(l).is_err() { break; } } Err(_) => break } } });
    Kid { proc, inp, rx, threads, workers, fam: fam.to_string(), envs }
}

impl Kid {
    pub fn stop(&mut self) { let _ = self.proc.kill(); let _ = self.proc.wait(); }
    /// one request/response within `limit_s` seconds; `{"lost": why}` if the child died or was too slow (it is replaced)
    pub fn ask(&mut self, c: &Value, limit_s: u64) -> Value {
        let ok = writeln!(self.inp, "{}", c).and_then(|_| self.inp.flush()).is_ok();
        let why = if !ok { "child process died before the request" } else {
            match self.rx.recv_timeout(std::time::Duration::from_secs(limit_s)) {
                Ok(line) => { if let Ok(v) = serde_json::from_str::<Value>(&line) { return v; } "child sent an unreadable answer" }
                Err(std::sync::mpsc::RecvTimeoutError::Timeout) => "no answer within the time limit",
                Err(_) => "child process died (abort / out of its 4 GB memory cap / stack overflow)",
            }
        };
        let _ = self.proc.kill(); let _ = self.proc.wait();
        *self = spawn_kid_with(&self.fam.clone(), self.threads, self.workers, self.envs.clone());
        json!({"lost": why})
    }
}

fn cuts_random(r: &mut Rng, n: usize, k: usize) -> Vec<usize> {
    // k batches with random (possibly empty) sizes summing to n
    if k <= 1 { return vec![n]; }
    let mut marks: Vec<usize> = (0..k - 1).map(|_| r.below(n as u64 + 1) as usize).collect();
    marks.sort();
    let mut out = vec![]; let mut prev = 0;
    for m in marks { out.push(m - prev); prev = m; }
    out.push(n - prev);
    out
}

fn gen_scan(r: &mut Rng) -> Value {
    let threads = CHILDREN[r.below(CHILDREN.len() as u64) as usize].0;
    // sizes straddle the 1000-row rule
    let n = *r.pick(&[0usize, 1, 500, 998, 999, 1000, 1001, 1002, 1500, 2048, 4000]);
    let k = *r.pick(&[1usize, 2, 2, 3, 4, 5, 7, 8, 9, 16, 17, 33]);
    let cuts = if r.chance(1, 2) { let k = k.min(n.max(1)); (0..k).map(|i| n * (i + 1) / k - n * i / k).collect() } else { cuts_random(r, n, k) };
    json!({"kind": "scan", "threads": threads, "cuts": cuts})
}

fn gen_ojoin(r: &mut Rng) -> Value {
    let threads = CHILDREN[r.below(CHILDREN.len() as u64) as usize].0;
    // one side big enough to be multi-partition, the other side of any size; either may be the preserved side
    let nbig = *r.pick(&[1000usize, 1001, 1200, 2000]);
    let nsmall = *r.pick(&[0usize, 1, 7, 60, 300, 1000, 1500]);
    // key domain: small enough for many-to-many matches, large enough that the join stays below ~6000 pairs;
    // the upper part of the domain is used by one side only, so both sides always have unmatched rows
    let dom = (*r.pick(&[3i64, 8, 40, 400])).max((nbig * nsmall / 6000) as i64);
    let key = |r: &mut Rng| -> Value { if r.chance(1, 10) { Value::Null } else { { let hi = dom + r.range(0, 2); json!(r.range(0, hi)) } } };
    let side = |r: &mut Rng, n: usize| -> Vec<Value> { (0..n).map(|i| json!([i as i64, key(r)])).collect() };
    let kb = *r.pick(&[2usize, 3, 5, 8, 16]);
    let ks = *r.pick(&[1usize, 1, 2, 4, 9]);
    let big_is_build = r.chance(1, 2);
    let (nb, np, kbb, kpp) = if big_is_build { (nbig, nsmall, kb, ks) } else { (nsmall, nbig, ks, kb) };
    let build = side(r, nb); let probe = side(r, np);
    let bcuts = cuts_random(r, nb, kbb.min(nb.max(1))); let pcuts = cuts_random(r, np, kpp.min(np.max(1)));
    json!({"kind": "ojoin", "threads": threads, "jt": *r.pick(&["left", "right", "full"]), "swap": r.chance(1, 2),
           "build": build, "probe": probe, "bcuts": bcuts, "pcuts": pcuts})
}

fn gen_tracker(r: &mut Rng) -> Value {
    let threads = *r.pick(&[2usize, 3, 8, 16]);
    let side = |r: &mut Rng, n: usize, dom: i64| -> Vec<Value> { (0..n).map(|i| { let k = if r.chance(1, 10) { Value::Null } else { json!(r.range(0, dom)) }; json!([i as i64, k]) }).collect() };
    // both sides may be the probe side (planner's choice): make both multi-partition half of the time
    let na = *r.pick(&[5usize, 40, 300, 1000, 1200]);
    let nb = *r.pick(&[1000usize, 1001, 1500, 2000]);
    let dom = (*r.pick(&[8i64, 40, 400, 3000])).max((na * nb / 5000) as i64);
    let a = side(r, na, dom + 3); let b = side(r, nb, dom);
    let ka = *r.pick(&[1usize, 2, 3, 8]); let kb = *r.pick(&[2usize, 3, 5, 8, 16, 17]);
    let acuts = cuts_random(r, na, ka.min(na)); let bcuts = cuts_random(r, nb, kb);
    let mut rank: Vec<u64> = (0..16).collect(); r.shuffle(&mut rank);
    json!({"kind": "tracker", "threads": threads, "a": a, "b": b, "acuts": acuts, "bcuts": bcuts, "rank": rank, "mode": *r.pick(&["incr", "serial"])})
}

/// signature part of C07-F2 that is about the data: some integer column holds both a NULL and the value -1
fn has_null_and_minus_one(c: &Value) -> bool {
    let empty = vec![];
    let metas = c["cat"].as_array().unwrap_or(&empty);
    for (ti, m) in metas.iter().enumerate() {
        for (ci, col) in m["cols"].as_array().unwrap_or(&empty).iter().enumerate() {
            if !matches!(col["ty"].as_str(), Some("i64") | Some("i32")) { continue; }
            let rows = c["tables"][ti].as_array().unwrap_or(&empty);
            let has_null = rows.iter().any(|r| r[ci].is_null());
            let has_m1 = rows.iter().any(|r| r[ci]["i"].as_i64() == Some(-1));
            if has_null && has_m1 { return true; }
        }
    }
    false
}

/// stratum aggcut: aggregate statements over a small table with NULL runs, re-cut into many batch counts (see the header)
fn gen_aggcut(r: &mut Rng) -> Value {
    use crate::fams::fam_sql::sqlgen::catalog::ColSpec;
    use crate::fams::fam_sql::sqlgen::ColTy;
    let n = *r.pick(&[24usize, 60, 60, 84, 120]);
    let run = |r: &mut Rng| -> usize { *r.pick(&[0usize, 0, n / 12, n / 6, n / 4, n / 3, n / 2]) };
    // per aggregated column: NULL run at the start, NULL run at the end, plus sparse NULLs in between
    let mut runs: Vec<(usize, usize)> = (0..4).map(|_| (run(r), run(r))).collect();
    if r.chance(1, 2) { let e = runs[0].1.max(n / 6); for x in runs.iter_mut() { x.1 = e; } }   // aligned end runs across the columns
    let words = ["", "a", "ab", "b", "ba", "zz"];
    let mut rows: Vec<Vec<Val>> = vec![];
    for i in 0..n {
        let null_at = |c: usize, r: &mut Rng| i < runs[c].0 || i >= n - runs[c].1 || r.chance(1, 12);
        let a = if null_at(0, r) { Val::Null } else { Val::I(r.range(-3, 120)) };
        let d = if null_at(1, r) { Val::Null } else { Val::D(r.range(-400, 20000) as i32) };
        let f = if null_at(2, r) { Val::Null } else { Val::f(r.range(-40, 40) as f64 / 4.0) };
        let s = if null_at(3, r) { Val::Null } else { Val::S(r.pick(&words).to_string()) };
        rows.push(vec![Val::I(i as i64), a, d, f, s, Val::I((i % 3) as i64)]);
    }
    let col = |name: &str, cty: ColTy, unique: bool| ColSpec { name: name.into(), cty, null_pct: if unique { 0 } else { 10 }, boundary: false, special: false, unique };
    let t = TableSpec { cluster: None, name: "t0".into(), cols: vec![col("id", ColTy::I64, true), col("a", ColTy::I64, false), col("d", ColTy::Date, false),
        col("f", ColTy::F64, false), col("s", ColTy::Str, false), col("g", ColTy::I64, false)], rows, cuts: vec![n] };
    let cat = Catalog { tables: vec![t] };
    // columns: 1 a, 2 d, 3 f, 4 s, 5 g
    let cname = ["id", "a", "d", "f", "s", "g"];
    let ag = |f: &str, c: usize, distinct: bool| -> (String, Value) {
        let sql = if distinct { format!("COUNT(DISTINCT {})", cname[c]) } else { format!("{}({})", f.to_uppercase(), cname[c]) };
        (sql, json!({"fn": f, "arg": {"col": c}, "distinct": distinct}))
    };
    let c = 1 + r.below(4) as usize;                       // the aggregated column
    let num = *r.pick(&[1usize, 3]);                       // a or f: SUM / AVG are defined
    let mut aggs: Vec<(String, Value)> = vec![];
    let shape = r.below(4);
    match shape {
        0 => { aggs.push(ag(*r.pick(&["min", "max"]), c, false)); }                                  // single scalar aggregate
        1 => { for f in ["min", "max", "count"] { aggs.push(ag(f, c, false)); } aggs.push(("COUNT(*)".into(), json!({"fn": "count_star", "arg": {"lit": null}, "distinct": false}))); }
        2 => { aggs.push(ag("sum", num, false)); aggs.push(ag("avg", num, false)); aggs.push(ag("min", c, false)); aggs.push(ag("max", c, false)); }
        _ => { aggs.push(ag("count", c, true)); aggs.push(ag("min", c, false)); aggs.push(ag("max", *r.pick(&[1usize, 2]), false)); aggs.push(ag("min", *r.pick(&[1usize, 2]), false)); }
    }
    let grouped = shape == 3 || (shape != 0 && r.chance(1, 3));
    let mut sel: Vec<String> = vec![]; let mut keys: Vec<Value> = vec![];
    if grouped { sel.push("g".into()); keys.push(json!({"col": 5})); }
    sel.extend(aggs.iter().map(|x| x.0.clone()));
    let mut sql = format!("SELECT {} FROM t0", sel.join(", "));
    if grouped { sql.push_str(" GROUP BY g"); }
    let plan = json!({"agg": {"keys": keys, "aggs": aggs.iter().map(|x| x.1.clone()).collect::<Vec<_>>(), "q": {"scan": 0}}});
    json!({"kind": "sql", "prop": "C07", "mode": "meta", "sql": sql, "plan": plan, "tables": cat.tables_json(), "cat": cat.meta_json(),
           "tags": ["s:aggcut", format!("aggcut:shape{}", shape), if grouped { "aggcut:grouped" } else { "aggcut:global" }],
           "engine_defined": false, "cfgs": ["mem1"], "recut": 1, "recuts": [1, 2, 3, 5, 6, 7, 10, 12], "kids": [5]})
}

/// run one case through the children it needs; `None` = an observation was lost (child died / too slow): the case is dropped
fn run_case(kids: &mut Vec<Kid>, c: &Value, pre: Option<Value>) -> Option<Value> {
    match c["kind"].as_str().unwrap_or("") {
        "scan" | "ojoin" | "tracker" => {
            let t = c["threads"].as_u64().unwrap_or(1) as usize;
            let i = CHILDREN.iter().position(|x| x.0 == t).unwrap_or(0);
            let v = kids[i].ask(c, 60);
            if v.get("lost").is_some() { None } else { Some(v) }
        }
        "sql" => {
            // the 1-thread child always, plus the children named by the case (two of the other four)
            let mut use_kids: Vec<usize> = vec![0];
            if let Some(a) = c["kids"].as_array() { for x in a { let i = x.as_u64().unwrap_or(0) as usize; if i > 0 && i < kids.len() && !use_kids.contains(&i) { use_kids.push(i); } } }
            let mut runs = serde_json::Map::new(); let mut decl = serde_json::Map::new();
            let mut pre = pre;
            for i in use_kids {
                let k = &mut kids[i];
                // the 1-thread child's answer may already be there (pre-flight of a freshly generated case)
                let v = if i == 0 && pre.is_some() { pre.take().unwrap() } else { k.ask(c, 40) };
                if v.get("lost").is_some() { return None; }
                if let Some(m) = v["runs"].as_object() { for (a, b) in m { runs.insert(a.clone(), b.clone()); } }
                if let Some(m) = v["decl"].as_object() { for (a, b) in m { decl.insert(a.clone(), b.clone()); } }
            }
            let mut out = json!({"runs": Value::Object(runs.clone()), "decl": Value::Object(decl)});
            // when the configurations disagree, also observe the neutralised variant (attribution of known finding C07-F2)
            let answers: std::collections::BTreeSet<String> = runs.values().map(|v| v.to_string()).collect();
            if answers.len() > 1 && has_null_and_minus_one(c) && c.get("neutral").is_none() {
                let mut c2 = c.clone(); c2["neutral"] = json!("no_int_null");
                let mut nruns = serde_json::Map::new();
                let mut ks: Vec<usize> = vec![0];
                if let Some(a) = c["kids"].as_array() { for x in a { let i = x.as_u64().unwrap_or(0) as usize; if i > 0 && i < kids.len() && !ks.contains(&i) { ks.push(i); } } }
                for i in ks {
                    let v = kids[i].ask(&c2, 40);
                    if v.get("lost").is_some() { return None; }
                    if let Some(m) = v["runs"].as_object() { for (a, b) in m { nruns.insert(a.clone(), b.clone()); } }
                }
                out["neutral"] = json!({"no_int_null": Value::Object(nruns)});
            }
            Some(out)
        }
        _ => Some(json!({"bad_case": true})),
    }
}

pub fn main(o: &Opts) {
    if o.get_usize("child", 0) == 1 { child_main(); return; }
    let mut kids: Vec<Kid> = CHILDREN.iter().map(|(t, w)| spawn_kid(*t, *w)).collect();
    if let Some(p) = &o.replay {
        for c in replay_cases(p) { if let Some(i) = run_case(&mut kids, &c, None) { emit(c, i); } }
    } else {
        let mut r = Rng::new(o.seed ^ 0xC07);
        // generator options of the sql kind: multi-partition table 0, the strata whose clean behaviour was probed in DESIGN A.23
        let mut kv = o.kv.clone();
        kv.entry("multi".into()).or_insert("1".into());
        // table 0 is the multi-partition one (>= 1000 rows in >= 2 batches); the others stay small so that joins cannot explode
        kv.entry("sizes".into()).or_insert("tiny,small,small".into());
        kv.entry("batches".into()).or_insert("9".into());
        kv.entry("deny".into()).or_insert("cross_join".into());
        let o2 = Opts { seed: o.seed, cases: o.cases, replay: None, kv };
        let gopts = GenOpts::from_opts(&o2, "filter,join,agg,distinct,setop,sort_limit,cte,subquery");
        let copts = CatOpts::from_opts(&o2);
        let mut cat = gen_catalog(&mut r, &copts);
        let mut n = 0usize; let mut attempts = 0usize; let mut qn = 0usize;
        while n < o.cases && attempts < o.cases * 6 + 16 {
            attempts += 1;
            let kinds = o.get("kinds").unwrap_or("all");
            let slot = match kinds { "scan" => 0, "tracker" => 2, "ojoin" => 3, "aggcut" => 5, "sql" => 7, _ => n % 10 };
            let mut pre_answer: Option<Value> = None;
            let c = match slot {
                0 | 1 => gen_scan(&mut r),
                2 => gen_tracker(&mut r),
                5 | 6 => gen_aggcut(&mut r),
                3 | 4 => gen_ojoin(&mut r),
                _ => {
                    if qn % 6 == 0 { cat = gen_catalog(&mut r, &copts); }
                    qn += 1;
                    let mut qr = r.fork();
                    let g = Gen::new(&mut qr, &cat, &gopts).generate(qn);
                    if g.engine_defined { continue; }
                    let mut case = make_case("C07", &cat, &g.q, &g.tags, g.engine_defined, &[ExecCfg::mem_single()], true);
                    case["kind"] = json!("sql");
                    case["recut"] = json!(*r.pick(&[2u64, 3, 7, 16, 40]));
                    let mut others = vec![1u64, 2, 3, 4]; r.shuffle(&mut others);
                    case["kids"] = json!([others[0], others[1]]);
                    // pre-flight on the single-batch layout in the 1-thread child (10 s, 4 GB): skip statements that fail there or are huge
                    let pre = kids[0].ask(&case, 10);
                    let ok_rows = pre["runs"].as_object().and_then(|m| m.iter().find(|(k, _)| k.starts_with("mem1@"))).and_then(|(_, v)| v["ok"].as_array().map(|a| a.len()));
                    match ok_rows { Some(rows) if rows <= MAX_ROWS_OUT => {} _ => continue }
                    pre_answer = Some(pre);
                    case
                }
            };
            if let Some(i) = run_case(&mut kids, &c, pre_answer) { emit(c, i); n += 1; }
        }
    }
    for k in kids.iter_mut() { k.stop(); }
}
