// FAMILY: C15
//! C15: whole operation histories on the public `Membership` API.
//! case: {"self","self_id","universe":[str],"is_self":[bool],"ops":[..]}  (is_self = the REAL `is_self_address(a, self)`
//!       evaluated once per universe address at the start of the case — DNS and interfaces are the environment)
//! impl: {"obs":[..]} one observation after `new` and one after every op (see lean/Driver/C15.lean).
use crate::common::*;
use crate::rng::Rng;
use query_engine::distributed::membership::{is_self_address, local_ip_addresses};
use query_engine::distributed::{Discovery, Membership, MembershipChange, PeerStatus};
use serde_json::{json, Value};

fn tok(prefix: &str, v: &Value) -> Option<String> { v.as_u64().map(|n| format!("{prefix}{n}")) }

fn observe(m: &Membership, changes: &[MembershipChange]) -> Value {
    let members: Vec<Value> = m.members().into_iter().map(|x| json!({
        "address": x.address, "node_id": x.node_id, "flight": x.flight, "is_self": x.is_self,
        "status": match x.status { PeerStatus::Unknown => "unknown", PeerStatus::Up => "up", PeerStatus::Down => "down" },
        "seen": x.last_seen_unix_ms.is_some(), "last_error": x.last_error, "fails": x.consecutive_failures,
    })).collect();
    let ch: Vec<Value> = changes.iter().map(|c| match c {
        MembershipChange::Removed(a) => json!(["-", a]),
        MembershipChange::Added(a) => json!(["+", a]),
    }).collect();
    json!({"members": members, "generation": m.generation(), "resolved": m.resolved(), "peers": m.peer_addresses(),
           "rerr": m.last_resolve_error(), "changes": ch})
}

/// Runs the history on the real code. Returns the case with `is_self` re-measured, and the observations.
pub fn run_case(c: &Value) -> (Value, Value) {
    let mut c = c.clone();
    let self_addr = c["self"].as_str().unwrap_or("").to_string();
    let universe: Vec<String> = c["universe"].as_array().map(|a| a.iter().map(|x| x.as_str().unwrap_or("").to_string()).collect()).unwrap_or_default();
    let flags: Vec<bool> = universe.iter().map(|a| is_self_address(a, &self_addr)).collect();
    c["is_self"] = json!(flags);
    let c2 = c.clone();
    let imp = guarded(move || {
        let addr = |v: &Value| -> String { universe.get(v.as_u64().unwrap_or(u64::MAX) as usize).cloned().unwrap_or_default() };
        let m = Membership::new(c2["self_id"].as_u64().unwrap_or(0), self_addr.clone(), Discovery::Static(vec![]));
        let mut obs = vec![observe(&m, &[])];
        for op in c2["ops"].as_array().cloned().unwrap_or_default() {
            let mut changes = vec![];
            match op["op"].as_str().unwrap_or("") {
                "set" => {
                    let addrs: Vec<String> = op["addrs"].as_array().map(|a| a.iter().map(|x| addr(x)).collect()).unwrap_or_default();
                    changes = m.set_members(addrs);
                }
                "up" => m.record_up(&addr(&op["addr"]), op["node_id"].as_u64(), tok("f", &op["flight"])),
                "down" => m.record_down(&addr(&op["addr"]), tok("e", &op["err"]).unwrap_or_default()),
                "rerr" => m.record_resolve_error(tok("e", &op["err"]).unwrap_or_default()),
                _ => return json!({"bad_case": true}),
            }
            obs.push(observe(&m, &changes));
        }
        json!({"obs": obs})
    });
    (c, imp)
}

/// Address pool: this node in several spellings, port-only neighbours, other hosts, unparsable strings.
fn pool(port: u16, lan: &Option<String>) -> Vec<String> {
    let p2 = port + 1;
    let mut v = vec![
        format!("127.0.0.1:{port}"), format!("localhost:{port}"), format!("127.0.0.1:{p2}"), format!("localhost:{p2}"),
        format!("127.0.0.2:{port}"), format!("10.1.2.3:{port}"), format!("10.1.2.3:{p2}"), format!("[::1]:{port}"),
        format!("0.0.0.0:{port}"), format!("127.0.0.1:0{port}"), "127.0.0.1".to_string(), format!(":{port}"),
        format!("LOCALHOST:{port}"), format!("127.0.0.1:{port} "), format!("192.168.77.77:{port}"), String::new(),
        format!("127.1:{port}"), format!("[::ffff:127.0.0.1]:{port}"),
    ];
    if let Some(ip) = lan { v.push(format!("{ip}:{port}")); v.push(format!("{ip}:{p2}")); }
    v
}

fn gen_case(r: &mut Rng, lan: &Option<String>) -> Value {
    let port = *r.pick(&[7001u16, 7777, 80]);
    let pl = pool(port, lan);
    // self: mostly a loopback spelling (so that aliases exist), sometimes a foreign / wildcard / unparsable address
    let self_addr = match r.below(10) {
        0..=3 => pl[0].clone(), 4 | 5 => pl[1].clone(), 6 => pl[8].clone(), 7 => pl[5].clone(),
        8 => lan.as_ref().map(|ip| format!("{ip}:{port}")).unwrap_or(pl[0].clone()),
        _ => r.pick(&pl).clone(),
    };
    let n = 3 + r.below(6) as usize;
    let mut universe: Vec<String> = vec![];
    if r.chance(4, 5) { universe.push(self_addr.clone()); }
    while universe.len() < n {
        // bias towards the first entries (self spellings and port-only neighbours)
        let a = if r.chance(2, 3) { pl[r.below(8) as usize].clone() } else { r.pick(&pl).clone() };
        if !universe.contains(&a) { universe.push(a); }
    }
    r.shuffle(&mut universe);
    let nops = 1 + r.below(30) as usize;
    let mut ops = vec![];
    let mut last_set: Vec<u64> = vec![];
    for k in 0..nops {
        let u = universe.len() as u64;
        let roll = if k == 0 && r.chance(3, 4) { 0 } else { r.below(100) };
        let op = if roll < 30 {
            let addrs: Vec<u64> = match r.below(8) {
                0 => last_set.clone(),                                                   // re-resolve the same list
                1 => { let mut v = last_set.clone(); r.shuffle(&mut v); if let Some(x) = v.first().cloned() { v.push(x); } v } // same set, other order + duplicate
                2 => { let mut v = last_set.clone(); if !v.is_empty() { let i = r.below(v.len() as u64) as usize; v.remove(i); } v } // one gone
                3 => { let mut v = last_set.clone(); v.push(r.below(u)); v }              // one more
                4 => vec![],
                _ => (0..r.below(u + 2)).map(|_| r.below(u)).collect(),
            };
            last_set = addrs.clone();
            json!({"op":"set","addrs":addrs})
        } else if roll < 60 {
            let a = if !last_set.is_empty() && r.chance(4, 5) { *r.pick(&last_set) } else { r.below(u) };
            json!({"op":"up","addr":a,"node_id": if r.chance(2, 3) { json!(r.below(5)) } else { Value::Null },
                   "flight": if r.chance(1, 2) { json!(r.below(4)) } else { Value::Null }})
        } else if roll < 88 {
            let a = if !last_set.is_empty() && r.chance(4, 5) { *r.pick(&last_set) } else { r.below(u) };
            json!({"op":"down","addr":a,"err":r.below(3)})
        } else {
            json!({"op":"rerr","err":r.below(3)})
        };
        ops.push(op);
    }
    json!({"self": self_addr, "self_id": r.below(1000), "universe": universe, "is_self": [], "ops": ops})
}

pub fn main(o: &Opts) {
    if let Some(p) = &o.replay { for c in replay_cases(p) { let (c, i) = run_case(&c); emit(c, i); } return; }
    let mut r = Rng::new(o.seed ^ 0xC15);
    // a non-loopback IPv4 of this machine, if any (rule 3 of is_self_address); sorted so the choice is stable
    let mut ips: Vec<String> = local_ip_addresses().into_iter().filter(|ip| ip.is_ipv4() && !ip.is_loopback()).map(|ip| ip.to_string()).collect();
    ips.sort();
    let lan = ips.first().cloned();
    for _ in 0..o.cases {
        let c = gen_case(&mut r, &lan);
        let (c, i) = run_case(&c);
        emit(c, i);
    }
}
