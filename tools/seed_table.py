#!/usr/bin/env python3
"""Rewrite the seeded-change table in DESIGN.md (between the SEEDED-TABLE markers) from seeded/*/meta.json."""
import os, json, re, glob
ROOT = os.path.dirname(os.path.dirname(os.path.abspath(__file__)))
rows = []
for d in sorted(glob.glob(os.path.join(ROOT, "seeded", "*"))):
    try: m = json.load(open(os.path.join(d, "meta.json")))
    except Exception: continue
    c = m.get("checked_by_coordinator", {})
    what = re.sub(r"\s+", " ", m.get("what", ""))[:260]
    needs = re.sub(r"\s+", " ", m.get("needs", ""))[:200]
    conf = "yes" if os.path.exists(os.path.join(d, "confirmation.txt")) else "demo only"
    rows.append(f"| `seeded/{os.path.basename(d)}` | {m.get('property','?')} | {what} | {needs} | {c.get('verdict','?')} | {re.sub(r'[|]', '/', c.get('how',''))[:230]} | {conf} |")
table = "\n".join(["| change | property | what was changed | what it needs to manifest | verdict | which check / signal | suite+demo re-confirmed |", "|---|---|---|---|---|---|---|"] + rows)
p = os.path.join(ROOT, "DESIGN.md"); s = open(p).read()
b, e = "<!-- SEEDED-TABLE-BEGIN -->", "<!-- SEEDED-TABLE-END -->"
if b not in s:
    s += f"\n\n## 12. Seeded changes and which checks catch them\n\nEach change was written by a worker that saw only the property text and its own scratch worktree of `/repo` (nothing from `/verif`), compiles, keeps the 744 pinned tests passing, and comes with a demonstration that fails with the change and passes without it (`seeded/<id>/`: `patch.diff`, `demo.rs`, `meta.json`, `confirmation.txt`). Verdicts come from running the registered check of the property against a tree with the patch applied (`tools/mutcheck.sh`, equivalent to `git -C /repo apply …; ./check Cxx; git -C /repo checkout -- .`).\n\n{b}\n{e}\n"
s = s[:s.index(b) + len(b)] + "\n" + table + "\n" + s[s.index(e):]
open(p, "w").write(s)
print(len(rows), "rows")
