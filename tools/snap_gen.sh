#!/bin/bash
# Refresh the committed snapshot of the translated definitions from /repo's current source (run after fix: commits that touch translated items).
cd "$(dirname "$0")/.."
(cd translator && cargo build --offline --release 2>&1 | tail -1)
translator/target/release/iqe-translate --repo /repo --items translator/items.json --out lean/IQE/Gen
mkdir -p lean/GenSnapshot && rm -f lean/GenSnapshot/*.lean && cp lean/IQE/Gen/*.lean lean/IQE/Gen/manifest.json lean/GenSnapshot/ && ls lean/GenSnapshot
