#!/bin/bash
# Coordinator's gate before a commit that must be usable: regenerate registries skipping handlers that do not build,
# build everything setup_cmd builds, run every registered quick check, list what is not green.
cd "$(dirname "$0")/.."
python3 tools/regen.py --verify
./check --setup > /tmp/precommit-setup.log 2>&1 || { echo "SETUP FAILED"; tail -30 /tmp/precommit-setup.log; }
for p in $(ls checks/reg | sed 's/.py//'); do
  out=$(timeout ${PRECOMMIT_TIMEOUT:-900} ./check $p 2>&1); rc=$?
  echo "$p rc=$rc $(echo "$out" | grep -E "^$p:|VIOLATION|COVERAGE" | tr '\n' ' ')"
done
