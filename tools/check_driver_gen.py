#!/usr/bin/env python3
"""The shared driver must never depend on generated code: report every import path Driver.Main → … → IQE.Gen.*"""
import os, re, sys
L = os.path.join(os.path.dirname(os.path.dirname(os.path.abspath(__file__))), "lean")
def imports(mod):
    p = os.path.join(L, *mod.split(".")) + ".lean"
    if not os.path.exists(p): return []
    return re.findall(r"^import\s+(\S+)", open(p).read(), re.M)
bad, seen = [], {}
def walk(m, path):
    if m in seen: return
    seen[m] = True
    for i in imports(m):
        if i.startswith("IQE.Gen"): bad.append(" -> ".join(path + [m, i]))
        elif i.startswith("IQE.") or i.startswith("Driver."): walk(i, path + [m])
walk("Driver.Main", [])
for b in bad: print(b)
sys.exit(1 if bad else 0)
