#!/bin/bash
# run the thorough tier of the listed properties one after another; results in /tmp/thorough-results.txt
cd "$(dirname "$0")/.."
for p in "$@"; do
  s=$(date +%s); out=$(timeout ${THOROUGH_TIMEOUT:-3600} ./check $p --tier thorough 2>&1); rc=$?
  echo "$p rc=$rc wall=$(( $(date +%s) - s ))s $(echo "$out" | grep -E "^$p:|VIOLATION|COVERAGE" | tr '\n' ' ' | cut -c1-300)" >> /tmp/thorough-results.txt
done
