#!/bin/bash
# Confirm a seeded change in the shared scratch worktree /tmp/val (target /tmp/val-target):
#   (VAL=/tmp/val2 selects the second scratch worktree; CONFIRM_FAST=1 skips the two explicit builds)
#   compiles (default + verif-hooks), the 744 stable tests still pass, the demonstration fails with the change and passes without it.
# usage: tools/confirm_seed.sh <seeded-dir>      (writes <seeded-dir>/confirmation.txt)
d="$(readlink -f "$1")"; out="$d/confirmation.txt"
VAL=${VAL:-/tmp/val}
export CARGO_TARGET_DIR=$VAL-target CARGO_NET_OFFLINE=true CARGO_PROFILE_DEV_DEBUG=0 CARGO_PROFILE_TEST_DEBUG=0 CARGO_BUILD_JOBS=8 RAYON_NUM_THREADS=4
cd $VAL && git checkout -q -- . && git clean -fdq tests && git checkout -q --detach "$(git -C /repo rev-parse HEAD)"
name="seeded_$(basename "$d" | tr 'A-Z-' 'a-z_')"
demo="$d/demo.rs"; [ -f "$demo" ] || { echo "no demo.rs (in-file demo?)" > "$out"; }
{
echo "base commit: $(git rev-parse --short HEAD)   date: $(date -u +%FT%TZ)"
[ -f "$demo" ] && cp "$demo" tests/$name.rs
echo "== demo WITHOUT the change"; [ -f "$demo" ] && cargo test --offline --test $name 2>&1 | grep -E "^test result|^test .*(FAILED|ok)$|error" | head -12
git apply "$d/patch.diff" && echo "== patch applied"
if [ -n "$CONFIRM_FAST" ]; then echo "== build: default features are compiled by the suite run below; --features verif-hooks was compiled by the harness build of tools/mutcheck.sh with this patch applied"; else echo "== build default / verif-hooks"; cargo build --offline 2>&1 | tail -1; cargo build --offline --features verif-hooks 2>&1 | tail -1; fi
echo "== demo WITH the change"; [ -f "$demo" ] && cargo test --offline --test $name 2>&1 | grep -E "^test result|^test .*(FAILED|ok)$|error" | head -12
rm -f tests/$name.rs
echo "== pinned suite WITH the change"; python3 /verif/tools/run_baseline.py $VAL $VAL-target | head -8
} > "$out" 2>&1
git checkout -q -- . ; git clean -fdq tests
tail -3 "$out"
