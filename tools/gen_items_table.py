#!/usr/bin/env python3
"""Rewrite the 'translated items as built' table in DESIGN.md (between GEN-ITEMS markers) from lean/GenSnapshot/manifest.json and checks/reg."""
import os, json, sys
ROOT = os.path.dirname(os.path.dirname(os.path.abspath(__file__)))
sys.path.insert(0, os.path.join(ROOT, "checks"))
from registry import REGISTRY
m = json.load(open(os.path.join(ROOT, "lean/GenSnapshot/manifest.json")))
users = {}
for pid, ent in sorted(REGISTRY.items()):
    for it in ent.get("gen_items", []): users.setdefault(it, []).append(pid)
mods = {}
for it in m["items"]: mods.setdefault(it["module"], []).append(it)
rows = ["| Gen module | item (kind) | source | obligations of |", "|---|---|---|---|"]
n = 0
for mod_, its in mods.items():
    for it in its:
        n += 1
        rows.append(f"| `IQE.Gen.{mod_}` | `{it['name']}` ({it['kind']}) | `{it['file']}`:{it['start_line']}–{it['end_line']} | {', '.join(users.get(it['name'], [])) or '(used through another item)'} |")
p = os.path.join(ROOT, "DESIGN.md"); s = open(p).read()
b, e = "<!-- GEN-ITEMS-BEGIN -->", "<!-- GEN-ITEMS-END -->"
assert b in s
s = s[:s.index(b) + len(b)] + f"\n{n} items in {len(mods)} modules (status of every item `ok` in the snapshot):\n\n" + "\n".join(rows) + "\n" + s[s.index(e):]
open(p, "w").write(s); print(n, "items")
