#!/bin/bash
# Run checks against a seeded change WITHOUT touching /repo or /verif (other work is going on there):
#   tools/mutcheck.sh <patch.diff> <Cxx> [<Cyy> ...]
# Keeps a private copy of /verif in /tmp/mc/verif (harness path-dependency rewritten to /tmp/mc/repo) and a worktree /tmp/mc/repo.
# When nothing else is running, the brief's literal procedure (git -C /repo apply; ./check; git -C /repo checkout -- .) is equivalent.
set -e
patch="$(readlink -f "$1")"; shift
mkdir -p /tmp/mc
if [ ! -d /tmp/mc/repo ]; then git -C /repo worktree add -q --detach /tmp/mc/repo HEAD; fi
git -C /tmp/mc/repo checkout -q -- . && git -C /tmp/mc/repo checkout -q --detach "$(git -C /repo rev-parse HEAD)"
rsync -a --delete --exclude harness/target --exclude harness/scratch --exclude translator/target --exclude '.lock-*' --exclude replay --exclude evidence /verif/ /tmp/mc/verif/ || true
mkdir -p /tmp/mc/verif/replay /tmp/mc/verif/evidence
sed -i 's|path = "/repo"|path = "/tmp/mc/repo"|' /tmp/mc/verif/harness/Cargo.toml
export IQE_REPO=/tmp/mc/repo
cd /tmp/mc/verif
if [ "$patch" != "/dev/null" ]; then git -C /tmp/mc/repo apply "$patch"; fi
rc=0
for c in "$@"; do ./check "$c" --tier "${VERIF_TIER:-quick}" || rc=1; done
git -C /tmp/mc/repo checkout -q -- .
exit $rc
