#!/bin/bash
# Run checks against a seeded change WITHOUT touching /repo or /verif (other work is going on there):
#   tools/mutcheck.sh <patch.diff> <Cxx> [<Cyy> ...]
# Keeps a private copy of /verif in ${MC:-/tmp/mc}/verif (harness path-dependency rewritten to ${MC:-/tmp/mc}/repo) and a worktree ${MC:-/tmp/mc}/repo.
# When nothing else is running, the brief's literal procedure (git -C /repo apply; ./check; git -C /repo checkout -- .) is equivalent.
set -e
patch="$(readlink -f "$1")"; shift
mkdir -p ${MC:-/tmp/mc}
if [ ! -d ${MC:-/tmp/mc}/repo ]; then git -C /repo worktree add -q --detach ${MC:-/tmp/mc}/repo HEAD; fi
git -C ${MC:-/tmp/mc}/repo checkout -q -- . && git -C ${MC:-/tmp/mc}/repo checkout -q --detach "$(git -C /repo rev-parse HEAD)"
rsync -a --delete --exclude harness/target --exclude harness/scratch --exclude translator/target --exclude '.lock-*' --exclude replay --exclude evidence /verif/ ${MC:-/tmp/mc}/verif/ || true
mkdir -p ${MC:-/tmp/mc}/verif/replay ${MC:-/tmp/mc}/verif/evidence
sed -i "s|path = \"/repo\"|path = \"${MC:-/tmp/mc}/repo\"|" ${MC:-/tmp/mc}/verif/harness/Cargo.toml
# any hard-coded "/repo…" path inside harness sources must point at the private worktree too
grep -rl '"/repo' ${MC:-/tmp/mc}/verif/harness/src 2>/dev/null | xargs -r sed -i "s|\"/repo|\"${MC:-/tmp/mc}/repo|g"
export IQE_REPO=${MC:-/tmp/mc}/repo
cd ${MC:-/tmp/mc}/verif
if [ "$patch" != "/dev/null" ]; then git -C ${MC:-/tmp/mc}/repo apply "$patch"; fi
rc=0
for c in "$@"; do ./check "$c" --tier "${VERIF_TIER:-quick}" || rc=1; done
git -C ${MC:-/tmp/mc}/repo checkout -q -- .
exit $rc
