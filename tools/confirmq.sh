#!/bin/bash
# worker: confirm every seeded change that has no confirmation.txt yet (claims one at a time under a lock); usage: VAL=/tmp/val tools/confirmq.sh
cd "$(dirname "$0")/.."
while true; do
  d=$(flock /tmp/confirmq.lock bash -c 'for d in seeded/*; do if [ ! -f $d/confirmation.txt ] && [ ! -f /tmp/confirm-claim-$(basename $d) ]; then touch /tmp/confirm-claim-$(basename $d); echo $d; break; fi; done')
  [ -z "$d" ] && break
  CONFIRM_FAST=1 tools/confirm_seed.sh $d > /tmp/confirm-$(basename $d).log 2>&1
done
