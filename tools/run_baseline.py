#!/usr/bin/env python3
"""Run the repository's pinned test suite in a worktree and compare with /root/.vp/BASELINE.json stable_pass.
usage: run_baseline.py <worktree> [<target-dir>]   → prints the stable tests that did not pass; exit 0 iff none."""
import sys, os, re, json, subprocess
wt = sys.argv[1]; tgt = sys.argv[2] if len(sys.argv) > 2 else None
env = dict(os.environ, CARGO_NET_OFFLINE="true")
if tgt: env["CARGO_TARGET_DIR"] = tgt
p = subprocess.run("cargo test --workspace --no-fail-fast --offline 2>&1", shell=True, cwd=wt, env=env, stdout=subprocess.PIPE)
out = p.stdout.decode("utf-8", "replace")
prefix, passed, failed = None, set(), set()
for line in out.split("\n"):
    m = re.search(r"Running (unittests )?(\S+)", line)
    if m:
        path = m.group(2)
        if path == "src/lib.rs": prefix = "query_engine::"
        elif path == "src/main.rs": prefix = "query_engine::bin/query_engine::"
        else: prefix = "query_engine::" + os.path.splitext(os.path.basename(path))[0] + "::"
        continue
    if "Doc-tests" in line: prefix = "query_engine::doc::"
    m = re.match(r"test (\S+) \.\.\. (ok|FAILED|ignored)", line)
    if m and prefix:
        (passed if m.group(2) == "ok" else failed).add(prefix + m.group(1))
base = set(json.load(open("/root/.vp/BASELINE.json"))["stable_pass"])
missing = sorted(base - passed)
print(f"passed={len(passed)} failed={len(failed)} stable={len(base)} stable_not_passed={len(missing)}")
for m in missing[:40]: print("  NOT PASSED:", m)
if "error: could not compile" in out or "error[E" in out:
    print("COMPILE ERROR"); print(out[-3000:])
sys.exit(1 if missing else 0)
