#!/usr/bin/env python3
"""record_seed.py <Cxx> <tag> <caught|missed> "<signal / what I ran>" : file a confirmed seeded change under /verif/seeded/<Cxx>-<tag>/"""
import sys, os, json, shutil, glob
pid, tag, verdict, note = sys.argv[1:5]
src = f"/tmp/mut-{pid}-{tag}-out"; dst = f"/verif/seeded/{pid}-{tag}"
os.makedirs(dst, exist_ok=True)
for f in glob.glob(src + "/*"):
    b = os.path.basename(f)
    if b.startswith("patch") or b.startswith("demo") and os.path.getsize(f) < 200000 or b == "meta.json":
        shutil.copy(f, dst)
m = {}
try: m = json.load(open(dst + "/meta.json"))
except Exception as e: m = {"property": pid, "what": "(agent did not write meta.json; see patch.diff)", "needs": "", "ran": []}
m["checked_by_coordinator"] = {"verdict": verdict, "how": note}
json.dump(m, open(dst + "/meta.json", "w"), indent=1)
print("recorded", dst, os.listdir(dst))
