#!/bin/bash
# sequential queue of seeded-change checks: lines "<Cxx> <tag> [<check ids…>]" appended to /tmp/mcqueue2.txt
touch /tmp/mcqueue2.txt
while true; do
  line=$(head -1 /tmp/mcqueue2.txt)
  if [ -z "$line" ]; then sleep 20; continue; fi
  sed -i 1d /tmp/mcqueue2.txt
  set -- $line; p=$1; t=$2; shift 2; checks="${*:-$p}"
  MC=/tmp/mc2 timeout 3600 /verif/tools/mutcheck.sh /tmp/mut-$p-$t-out/patch.diff $checks > /tmp/mc-$p-$t.log 2>&1
  mkdir -p /tmp/mc-replays; cp /tmp/mc2/verif/replay/*.json /tmp/mc-replays/ 2>/dev/null
  echo "$p $t: $(grep -E "^C[0-9]+:|VIOLATION" /tmp/mc-$p-$t.log | tr '\n' ' ')" >> /tmp/mc-results.txt
done
