#!/usr/bin/env python3
"""Rewrite Appendix B of DESIGN.md (between FINDINGS markers) from known_findings.json."""
import os, json, re
ROOT = os.path.dirname(os.path.dirname(os.path.abspath(__file__)))
kf = json.load(open(os.path.join(ROOT, "known_findings.json")))["findings"]
def key(f):
    m = re.match(r"C(\d+)-F(\d+)(.*)", f["id"]); return (int(m.group(1)), int(m.group(2)), m.group(3)) if m else (999, 0, f["id"])
rows = []
for f in sorted(kf, key=key):
    st = f.get("status", "open")
    c = f.get("commit", "")
    c = " ".join(c) if isinstance(c, list) else str(c)
    what = re.sub(r"\s+", " ", f.get("what", "")).replace("|", "/")[:330]
    rows.append(f"| {f['id']} | {st}{(' ' + c) if st == 'fixed' else ''} | {what} | `{f.get('witness','')}` |")
table = "\n".join(["| finding | status | what fails on the tree without the fix | witness (replayed on every run) |", "|---|---|---|---|"] + rows)
p = os.path.join(ROOT, "DESIGN.md"); s = open(p).read()
b, e = "<!-- FINDINGS-BEGIN -->", "<!-- FINDINGS-END -->"
if b not in s:
    s += f"\n\n## Appendix B — every genuine defect found (generated from known_findings.json)\n\n`fixed <commit>`: repaired in `/repo` by that `fix:` commit (validated against the unedited 744-test suite); the entry suppresses nothing and its witness is a regression case. `open`: recorded rather than repaired (repair not small and safe, or a maintainer decision — see `proposed_fixes/declined/README.md`); the check prints a `KNOWN-FINDING` line and attributes a failing generated case to it only by the rule of §3.4.\n\n{b}\n{e}\n"
s = s[:s.index(b) + len(b)] + "\n" + table + "\n" + s[s.index(e):]
open(p, "w").write(s)
print(len(rows), "findings;", sum(1 for f in kf if f.get('status')=='fixed'), "fixed")
