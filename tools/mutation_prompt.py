#!/usr/bin/env python3
"""Print the prompt for an independent seeded-change agent for one property (it gets the property record and a scratch worktree, nothing from /verif)."""
import json, sys
pid, tag = sys.argv[1], (sys.argv[2] if len(sys.argv) > 2 else "a")
p = next(json.loads(l) for l in open("/verif/properties.jsonl") if json.loads(l)["id"] == pid)
wt = f"/tmp/mut-{pid}-{tag}"
print(f"""You are testing how good a verification effort is by planting a realistic defect. You work ONLY inside your own scratch git worktree of a Rust repository; you must NOT read, list or use anything under /verif (that is the verification effort under test — looking at it would spoil the experiment), and you must not modify /repo itself.

Setup (run exactly):
  git -C /repo worktree add --detach {wt} HEAD
  cp -al /tmp/val2-target {wt}-target 2>/dev/null && rm -rf {wt}-target/debug/.fingerprint/query_engine-* {wt}-target/debug/incremental/query_engine-* {wt}-target/debug/deps/*query_engine* || true    # hard-link copy of a warm build cache (instant, no extra disk): your first build is then incremental (minutes, not an hour)
  export CARGO_TARGET_DIR={wt}-target CARGO_NET_OFFLINE=true CARGO_PROFILE_DEV_DEBUG=0 CARGO_PROFILE_TEST_DEBUG=0 CARGO_BUILD_JOBS=6 RAYON_NUM_THREADS=4
  (export those in EVERY shell command you run: shell state does not persist between your commands. Disk and CPU are scarce and shared:
   the debug-info-free profile keeps your target directory near 5 GB instead of 20 GB; with the warm cache copied above an incremental build takes a few minutes (a cold one an hour on this loaded machine — never delete the cache). Run the full test suite at most
   twice in total — once on the unmodified tree is NOT needed: the known baseline is "744 stable tests pass, ~245 tests that need a data/ directory fail";
   judge your change by the list of failing test names being the same as on the unmodified tree, which you can get cheaply by running only the
   test binaries related to your change first.)
Work in {wt}. The repository is afilipchik/iceberg-query-engine: a from-scratch Rust analytical SQL engine on Arrow (binder, planner, optimizer rules, vectorized/spillable operators, Parquet/Iceberg readers, distributed mode). Offline sandbox: no network, `cargo … --offline` only.

The semantic property (a user-level guarantee that must hold for every input/schedule/history, which the existing tests cannot settle):

  id: {p['id']}
  title: {p['title']}
  statement: {p['statement']}
  quantifier: {p['quantifier']['text']}
  why tests cannot settle it: {p['why_tests_cant']}
  anchored in: {json.dumps(p['anchors'], ensure_ascii=False)}

Your task: make ONE small, realistic change to the library source (the kind of slip a maintainer could make in a refactor, optimisation or bug fix — not sabotage that ordinary use would expose at once) such that
  (1) the crate still compiles (`cargo build --offline`, default features AND `--features verif-hooks`),
  (2) the existing test suite still passes unedited: `cargo test --workspace --no-fail-fast --offline` (compare with the unmodified tree if a test is flaky; ~750 tests),
  (3) the property above is now violated, and
  (4) the violation needs something specific to manifest: a particular interleaving, a fault at a particular point, a multi-step sequence of operations, an unusual input (boundary value, NULL pattern, size threshold, rare type), or two cooperating sites that each look fine alone. Prefer changes in the mechanism the property is anchored in; do not touch tests, Cargo.toml features, or the `verif`/`verif_*` hook functions.
Write a demonstration that FAILS with your change and PASSES without it: a new integration test file `tests/seeded_{pid.lower()}_{tag}.rs` (or, if the relevant function is private, a `#[cfg(test)]` test appended to the source file's test module) — run it both ways and record the outputs.

Deliver in the directory {wt}-out/ (create it):
  patch.diff   — `git diff` of the library change only (no test files), applicable with `git apply` on the repository HEAD
  demo.rs (or demo.diff if it had to be an in-file unit test) — the demonstration
  meta.json    — {{"property": "{pid}", "what": "<one paragraph: what was changed>", "needs": "<what specific input/schedule/history it needs to manifest>", "ran": ["<commands you ran and their outcomes: build, full test suite pass count, demo fails with / passes without>"]}}
If after an honest attempt you cannot find a change that keeps the whole existing suite green, say so and deliver the best candidate with the failing test names in meta.json. When finished, remove your worktree and build directory: `git -C /repo worktree remove --force {wt}; rm -rf {wt}-target` (keep {wt}-out). Final message: the contents of meta.json and the patch.""")
