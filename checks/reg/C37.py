ENTRY = {
    "level": "proof",
    "families": [fam("C37", 20000, 600000)],
    "gen_items": [],
    "rule": "cases: 30% encode_optimal→decode round trips, 20% filter_simd, 20% compare_simd (6 operators; 1/3 with NaN/-0.0/inf bit patterns, 1/3 NULL-free), "
            "10% add_simd, 10% multiply_simd, 10% sum_simd/count_simd, every 12th case from the malformed stream (length and type mismatches); "
            "types Int32/Int64/Float64/Utf8/Boolean; shapes constant / runs / random / few-unique / wide; NULL patterns none / all / sparse / half / exactly one, "
            "with the PHYSICAL value under NULL slots chosen (same as neighbours, zero, arbitrary); half the arrays are slices at a non-zero offset, "
            "with or without a validity bitmap when all valid; lengths 0,1,2,3,6,7,8,10,20 and random <70. Every case also runs the real Arrow kernel "
            "(filter, cmp::*, numeric::add/mul, aggregate::sum, len-null_count). Non-trivial = array length >= 2 and not a declared typed rejection; "
            "distinct by sha256 of the canonical case",
    "trusted_base": COMMON_TB + [
        "modelled not verified: the loops of arrow_ffi/array.rs and arrow_ffi/codec.rs (IQE.Engine.VecCodec); Arrow's own array accessors "
        "(value/is_null/values()/iter()/slice) as windows into (validity, value) buffers; arrow::compute::cast of a dictionary array to read the decoded strings",
        "the Arrow kernels themselves are the reference of the oracle (run in-process on the same arrays), not modelled",
    ],
    "assumptions": [
        "a helper's explicit `Unsupported type` error (filter: Int32/Utf8; compare/add/multiply/sum: Int32/Utf8/Boolean) is treated as a declared typed rejection, "
        "not as a wrong answer; it must still be exactly the rejection the model's type table predicts",
        "integer test values are small (no i64 overflow: debug builds panic, Arrow's checked kernels error); float arithmetic/sum cases use small integer-valued "
        "doubles so every result is exact and independent of summation order; NaN/-0.0/inf only in round-trip, filter, compare and count cases",
        "round trip is judged by logical equality (length, validity, valid values); a Dictionary-encoded result is read through its keys (its Arrow data type differs from Utf8)",
        "the f64 threshold tests `> 0.7` / `> 0.5` are modelled over the rationals (they select between encodings that all decode to the input)",
    ],
    "min_tags": {"roundtrip": 1, "filter": 1, "compare": 1, "add": 1, "mul": 1, "sum": 1, "count": 1, "offset": 1, "nulls": 1,
                 "enc-Constant": 1, "enc-Dictionary": 1, "enc-RunLengthEncoded": 1, "enc-Flat": 1, "typed-rejection": 1},
    "manifest": {
        "category": "proof",
        "text": "Lean theorems over the executable model of arrow_ffi (arrays = windows at any offset into validity+value buffers): "
                "decode(encode_optimal a) is logically a for every array of every type and never errors; filter/compare/add/multiply/sum/count loops equal the "
                "elementwise Arrow semantics for every length, offset and buffer content (model with all deviation switches off). Tied to the code by "
                "correspondence on generated arrays, with the real Arrow kernels run on the same inputs as the oracle. The tree as first received violated the property "
                "in eight ways (findings C37-F1..F8: each a model switch with a kernel-checked negation witness); all eight were repaired in /repo by fix: commits "
                "c8c2c98..bfe7617 and their witnesses are replayed from corpus/C37 on every run.",
        "design_ref": "DESIGN.md §6 C37",
        "level_note": "Trusted: Lean kernel; axioms propext/Classical.choice/Quot.sound; the hand-written model of the Rust loops and of Arrow's accessors "
                      "(validated by the correspondence runs only); Arrow kernels as reference; harness generators. Float arithmetic is not modelled "
                      "(element operations are parameters; test data keeps them exact). Typed `Unsupported` rejections are accepted as declared partiality.",
        "technique": "Lean 4 proof over executable model + differential correspondence with the Rust code and the Arrow kernels",
    },
}
