ENTRY = {
    "level": "proof",
    "families": [fam("C05", 400, 12000)],
    "gen_items": ["BinaryOp", "flip_op", "eval_range", "eval_range_i32", "eval_range_f64", "eval_range_str", "definite_table", "definite_table_int"],
    "extra_props": ["IQE.Props.C05Gen"],
    "rule": "each case = one REAL Parquet file written by the harness (1-3 columns of int64 / int32 / double / utf8 / date32, 1-4 row groups written one by one, "
            "1-5 rows each, NULL density 0 / 25 / 100 %, one column in twelve without statistics) x 8 predicates of depth 0..2 over comparison with the literal on "
            "either side (own-type and coerced literal types: Int32/Date32 literal vs Int64 column, Int64 vs Int32, Float64 vs integer and reverse), [NOT] BETWEEN, "
            "[NOT] IN, NOT, AND, OR, IS NULL, column-vs-column and arithmetic operands (conservative shapes); value classes: small, +-2^53+-1, i64/i32 extremes, "
            "2^31 and 2^32 neighbours, NaN, +-0.0, +-inf, subnormal, 1e300, empty / non-ASCII / 80-byte strings; observed: statistics read back from the footer, "
            "prune_row_groups, row_group_might_match, row_group_definitely_matches per row group, evaluate_expr on each DECODED row group; "
            "non-trivial = the file has at least one row group; distinct by sha256 of the canonical case",
    "trusted_base": COMMON_TB + [
        "modelled not verified: row_group_might_match / row_group_definitely_matches / check_comparison / definite_comparison / check_*_stats dispatch (IQE.Engine.Pruning)",
        "translated (re-generated each run): BinaryOp, flip_op, eval_range, eval_range_i32, eval_range_f64, eval_range_str, the final match of definite_comparison (IQE.Gen.Pruning)",
        "the reference semantics Pruning.sem of the fragment (checked equal to the interpreter model IQE.Engine.Filter and to evaluate_expr on every generated case)",
        "parquet-rs writes min/max/null_count that satisfy StatsOf (trusted library; the run re-checks soundness against the decoded rows, not StatsOf itself)",
        "`as f64` is the driver's Float.ofInt (round to nearest), assumed monotone in the theorems",
    ],
    "assumptions": [
        "float theorems hold under the stated hypothesis: no NaN and no negative zero among cells and float literals (necessary: finding C05-F3); NaN literals are not generated",
        "strings are compared byte-wise (Rust &str / Arrow Utf8 kernels); that this is the code-point order of the SQL reference is not proved here",
        "integer arithmetic operands stay small (no overflow errors)",
    ],
    "min_tags": {"pruned": 1, "definite": 1, "switch-visible": 1, "ty-int": 1, "ty-i32": 1, "ty-f64": 1, "ty-str": 1, "ty-date": 1, "nulls": 1, "no-statistics": 1, "float-corner": 1},
    "manifest": {
        "category": "proof",
        "text": "Lean theorems over the TRANSLATED range tables of row_group_pruning.rs and the hand model of its recursive functions: with statistics that bound the non-NULL values "
                "(StatsOf) row_group_might_match never drops a row group holding a row the predicate keeps, row_group_definitely_matches only fires when the predicate is TRUE on all "
                "rows, and filtering after pruning equals filtering (C05_might_match_sound, C05_definite_sound, C05_prune_answer_invariant) - for every predicate of the fragment, "
                "every number of row groups, integers exactly, strings byte-wise, floats under the stated no-NaN / no-negative-zero hypothesis; kernel-checked negation witnesses for the "
                "f64-rounded definite comparison and the i64-as-i32 narrowing the tree had before fix e356a0a, and for the necessity of the float hypothesis. Tied to the code by correspondence on real Parquet files.",
        "design_ref": "DESIGN.md §6 C05",
        "level_note": "Trusted: Lean kernel; axioms propext/Classical.choice/Quot.sound; hand model of the recursive pruning functions (validated by correspondence only); translator for the "
                      "seven generated items; parquet-rs statistics; harness generators. Findings C05-F1 / C05-F2 (f64-rounded definite comparison, i64-as-i32 narrowing) were repaired in /repo by fix e356a0a (witnesses replayed from corpus/C05); "
                      "C05-F3 (NaN / signed zeros vs IEEE statistics) is open and recorded.",
        "technique": "Lean 4 proof over translated tables + executable model + differential correspondence on real Parquet files",
    },
}
