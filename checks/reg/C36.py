MODELLED = """abs sign mod greatest least width_bucket to_base from_base
bitwise_and bitwise_or bitwise_xor bitwise_not bit_count bitwise_left_shift bitwise_right_shift bitwise_right_shift_arithmetic
length upper lower reverse trim ltrim rtrim concat concat_ws starts_with ends_with substring2 substring3 left right repeat replace strpos position
lpad rpad split_part chr codepoint ascii translate hamming_distance levenshtein_distance luhn_check
coalesce nullif if case_searched case_simple
to_hex from_hex to_base64 from_base64 to_base64url from_base64url to_base32 from_base32
to_big_endian_64 from_big_endian_64 to_big_endian_32 from_big_endian_32 url_encode url_decode to_utf8 from_utf8
year month day quarter day_of_week day_of_year last_day_of_month date_add date_diff date_trunc""".split()
LAWS = ["law:reverse_reverse", "law:not_not", "law:from_hex_to_hex", "law:from_base64_to_base64", "law:from_base64url_to_base64url",
        "law:from_base32_to_base32", "law:from_big_endian_64_to", "law:from_big_endian_32_to", "law:url_decode_url_encode",
        "law:from_utf8_to_utf8", "law:codepoint_chr", "law:from_base_to_base", "law:substring_from_1", "law:date_diff_date_add_day",
        "law:concat_eq_op", "law:de_morgan", "law:bit_count_incl_excl", "law:length_concat", "law:length_reverse", "law:reverse_concat",
        "law:upper_lower", "law:levenshtein_symmetric", "law:hamming_symmetric", "law:greatest_commutes", "law:last_day_idempotent",
        "law:date_trunc_idempotent", "law:left_is_substring", "law:strpos_is_position"]
UNMODELLED = ("ceil floor round power pow sqrt truncate ln log log2 log10 exp random rand sin cos tan asin acos atan atan2 sinh cosh tanh cot degrees radians "
              "pi e cbrt infinity nan is_finite is_nan is_infinite beta_cdf inverse_beta_cdf normal_cdf inverse_normal_cdf t_cdf t_pdf "
              "wilson_interval_lower wilson_interval_upper cosine_similarity cosine_distance l2_distance dot_product split soundex normalize word_stem "
              "hour minute second millisecond week year_of_week timezone_hour timezone_minute current_date current_time current_timestamp current_timezone "
              "localtime localtimestamp now date_part extract from_unixtime to_unixtime from_iso8601_timestamp from_iso8601_date to_iso8601 date_format date_parse "
              "parse_datetime parse_duration human_readable_seconds at_timezone with_timezone timezone cast try_cast try format format_number parse_data_size "
              "regexp_like regexp_extract regexp_extract_all regexp_replace regexp_split regexp_count regexp_position md5 sha1 sha256 sha512 crc32 xxhash64 murmur3 "
              "spooky_hash_v2_32 spooky_hash_v2_64 hmac_md5 hmac_sha1 hmac_sha256 hmac_sha512 from_ieee754_32 to_ieee754_32 from_ieee754_64 to_ieee754_64 "
              "url_extract_host url_extract_path url_extract_port url_extract_protocol url_extract_query url_extract_fragment url_extract_parameter typeof uuid "
              "json_* (14 functions) array functions (29: cardinality .. zip)").split()
ENTRY = {
    "level": "proof",
    "families": [fam("Fn", 6000, 200000)],
    "gen_items": [],
    "rule": "one case = one SQL statement SELECT <expr> run through ExecutionContext::sql: 6 of 7 cases are plain calls f(args) taken round-robin from the "
            "modelled list, 1 of 7 is a LAW evaluated by the engine alone (28 laws: round trips outer(inner(x)) = x, and identities lhs = rhs such as De Morgan, "
            "bit_count inclusion-exclusion, length(a||b) = length(a)+length(b), concat = ||, symmetry of the distances) judged on the engine's outputs without the "
            "model; per case one of three argument modes: all arguments SQL literals (typed NULLs as CAST(NULL AS t)), all arguments columns of a registered "
            "in-memory table t(id, c0..ck) with 1..4 rows (vectorised path, NULL rows), or mixed; every argument is NULL with probability 1/9; generators per "
            "argument kind: integers (boundary table incl. i64::MIN/MAX, small, 64-bit random), strings over an alphabet with ASCII, 2/3/4-byte code points, "
            "whitespace and quotes (lengths 0..14), delimiters, positions incl. 0/negative/beyond, radices incl. invalid, code points incl. surrogates and "
            "> 0x10FFFF, byte strings (0..20 bytes), valid and corrupted hex/base64/base64url/base32 text, percent-escapes incl. malformed, dates (month ends, "
            "leap days, years 1..9999 as literals, wider as columns), unit names incl. upper case / unsupported; non-trivial = documented result has a non-NULL "
            "row or raises; cases whose input class is excluded from the claim (tag f:unclaimed) are not judged and not counted; distinct by sha256 of the case",
    "trusted_base": COMMON_TB + [
        "IQE.Spec.Fn IS the reading of the documented (Trino) meaning of each function; it is validated against the engine only where they agree and is otherwise "
        "the judge — a misreading of the documentation would show up as a (wrongly) listed finding, each of which quotes the call and both values",
        "IQE.Engine.FnDev mirrors the engine's deviating arms (filter.rs evaluate_scalar_func); used only to attribute failures to listed findings",
        "SQL rendering of arguments in the harness (quoting, typed NULLs, varbinary literals as from_hex('..'), INTEGER via CAST); Arrow result extraction",
        "Lean Float (IEEE double) in the mirror of width_bucket only",
    ],
    "assumptions": [
        "PARTIAL: modelled functions = " + " ".join(MODELLED),
        "NOT MODELLED, nothing claimed: " + " ".join(UNMODELLED),
        "documented meaning = Trino's (the project documents its functions as Trino-compatible, .claude/plans/trino-function-implementation.md), EXCEPT the "
        "variants the project's own tests pin or its code applies uniformly, which are modelled as such: to_hex prints lower case; url_encode/url_decode are "
        "RFC 3986 percent-encoding (space -> %20, '+' not decoded); decoders given undecodable input (from_hex, from_base64*, from_base32, from_base digits, chr of "
        "a non-scalar value, hamming_distance of different lengths, from_big_endian of short input) return NULL where Trino raises",
        "excluded input classes (engine-defined, tagged f:unclaimed, never judged): upper/lower on non-ASCII strings; codepoint of a string that is not one "
        "character; luhn_check with non-digits or ''; split_part with index <= 0 or an empty delimiter; lpad/rpad with an empty pad string; left/right and the "
        "shifts with a negative count; width_bucket with n <= 0 or equal bounds; from_big_endian of over-long input; from_utf8 / url_decode whose bytes are "
        "not UTF-8 or whose escapes are malformed; date_add/date_diff/date_trunc with a unit other than day/week/month/quarter/year",
        "trim/ltrim/rtrim: whitespace = Unicode White_Space; U+001C..U+001F and U+180E (where Java and Unicode differ) are not generated",
        "width_bucket: integer operands in -5..45 and counts <= 100, where the documented double computation is exact",
        "result TYPES are not compared (an integer-valued double equals the integer; Int32 vs Int64 is not distinguished) — that is C30",
        "lpad/rpad with a negative size and repeat/lpad with sizes above 40 are not generated: the real code would allocate without bound (by reading: lpad('a', -1, 'x') asks for 2^64 characters)",
        "bare untyped NULL literals are not generated (most arms reject a NullArray with a type error); typed NULLs and NULL column rows are",
        "date literals are limited to years 1..9999; other dates are passed as Date32 columns; |days| <= 3.7e6; levenshtein/hamming inputs have <= 5 characters",
    ],
    "min_tags": dict([(f, 12) for f in MODELLED] + [(l, 2) for l in LAWS] + [("mode:lit", 300), ("mode:col", 300), ("mode:mixed", 100), ("out:null", 100), ("out:raises", 5)]),
    "manifest": {
        "category": "proof",
        "text": "PARTIAL by design. Lean definitions (IQE.Spec.Fn) of the documented meaning of 85 scalar functions (integer math, 64-bit bitwise, strings over code "
                "points, conditional expressions, hex/base64/base64url/base32/big-endian/URL/UTF-8 encodings, proleptic-Gregorian dates) and kernel-checked laws that pin "
                "them down: NULL rule of every strict function and of coalesce/nullif/if/case/concat_ws; abs/sign/mod sign rules, greatest/least, exact width_bucket "
                "bounds, from_base(to_base(x,r),r) = x; NOT involution, De Morgan, bit_count inclusion-exclusion; length/concat/reverse/substring/left/right/lpad/"
                "replace/strpos/translate relations, chr/codepoint inverse, hamming and levenshtein are metrics (incl. triangle inequality), luhn_check accepts every "
                "generated check digit; decode(encode(b)) = b for ALL byte strings for hex, base64, base64url, base32, big-endian 32/64, and for ALL strings for "
                "UTF-8 and url_encode; civil_from_days and days_from_civil are mutually inverse on ALL day numbers / valid dates, with the derived laws of "
                "year/month/day/quarter/day_of_week/day_of_year/last_day_of_month/date_trunc/date_add/date_diff. Tied to the code by running SELECT f(args) through the "
                "SQL front door on generated literal and column arguments and comparing with the Lean evaluation; 28 laws are also judged on the engine's own outputs "
                "without the model. 14 open known findings (5 more repaired by fix: commits) (engine contradicts the documented value, panics, or reads an argument from row 0 only) are attributed only "
                "when the engine's output equals the mirrored deviation exactly. Floating-point, regex, JSON, hash, time-zone, array functions are NOT modelled.",
        "design_ref": "DESIGN.md §6 C36",
        "level_note": "Trusted: Lean kernel; axioms propext/Classical.choice/Quot.sound; the reading of the Trino documentation written as IQE.Spec.Fn; harness SQL "
                      "rendering and generators. Partial: the unmodelled functions are listed in the evidence `assumptions`.",
        "technique": "Lean 4 executable specification + laws, differential correspondence through SQL, engine-evaluated round-trip laws",
    },
}
