_OPTS = {"prop": "C24", "strata": "setop", "big": "small", "allow": "sort_limit,null_lit", "deny": "subquery,derived"}
ENTRY = {
    "level": "proof",
    "families": [fam("SQL", 400, 4000, opts={"quick": _OPTS, "thorough": dict(_OPTS, sizes="tiny,small,mid")})],
    "gen_items": [],
    "rule": "generated statements: two or three SELECTs (1-3 columns of generated tables with duplicates and NULL density 0/10/50/100 %, optional WHERE) combined by "
            "UNION / INTERSECT / EXCEPT, each with and without ALL, nested left-deep, optionally under ORDER BY / LIMIT; run through ExecutionContext::sql over single- and "
            "multi-batch memory tables; oracle = Spec.acceptable on the engine's rows (bag equality with NULLs not distinct; order / limit freedom as acceptable allows); "
            "non-trivial = engine answered and the reference answer is non-empty; distinct by sha256 of the canonical case",
    "trusted_base": COMMON_TB + ["modelled not verified: binder lowering of INTERSECT/EXCEPT to semi/anti joins + Distinct (IQE.Engine.SetOps)",
                                 "SQL reference semantics IQE.Spec (ours); SQL text <-> plan correspondence is the generator's (harness/src/sqlgen)"],
    "assumptions": ["BOOLEAN and DOUBLE columns are not used as set-operation columns (the engine refuses BOOLEAN group keys; float grouping is engine-defined)",
                    "INTEGER columns are cast to BIGINT in set-operation operands (mixed-width operands hit an unrelated engine defect)"],
    "min_tags": {"f:union": 1, "f:union_all": 1, "f:intersect": 1, "f:intersect_all": 1, "f:except": 1, "f:except_all": 1, "data:big": 4},
    "manifest": {
        "category": "proof",
        "text": "Lean theorems, for all tables: multiplicities of UNION ALL (sum), UNION (support), INTERSECT ALL (min), EXCEPT ALL (monus), INTERSECT / EXCEPT (supports) with NULLs not distinct, stated over Spec.run's bag operations with List.count; the model of the engine's semi/anti-join encoding equals the reference with all deviation switches off, and with the switches of the unchanged tree it agrees with the reference on INTERSECT ALL / EXCEPT ALL **iff** every common row is NULL-free and at most as frequent on the left (exact characterisation), on the DISTINCT forms iff every common row is NULL-free. Tie: generated set-operation statements through ExecutionContext::sql judged by Spec.acceptable; failing cases attributed only when the engine's rows equal the encoding model's answer.",
        "design_ref": "DESIGN.md §6 C24",
        "level_note": "Trusted: Lean kernel; propext/Classical.choice/Quot.sound; reference semantics IQE.Spec; generator's printer/serializer pair; the model of the binder's encoding. Unchanged tree: violated (C24-F1 NULLs, C24-F2 ALL multiplicities; repair = a group-and-count lowering, not small).",
        "technique": "Lean 4 proof over reference semantics + executable model; differential correspondence with the Rust engine on generated SQL",
    },
}
