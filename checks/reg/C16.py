ENTRY = {
    "level": "proof",
    "families": [fam("C16", 6000, 150000)],
    "gen_items": [],
    "rule": "cases by count: 50% rendered responses (status text with leading zeros, 7 reason phrases, 0..3 headers of mixed case incl. values with `:`/tabs/empty, "
            "Content-Length in 3/4 of them (plain, `+n`, `00n`), bodies 0..199 bytes binary / CRLF-heavy / printable) given complete and cut at EVERY truncation point "
            "(responses <= 160 bytes, 1 in 3) or at 3 random points; 25% token soup (invalid UTF-8, lone LF/CR, Unicode white space, status 65535/65536/+200/-1, "
            "Content-Length abc / +3 / 2^64-1 / overflowing / duplicated / spaced name); 25% the rendered responses served by a scripted TCP server to the public async "
            "get / post_json / request: complete, closed after EVERY truncation point (responses <= 90 bytes, 1 in 4) or 2 random points, and <= 12 stalled connections "
            "(150 ms client timeout; outer 3 s watchdog = hang); non-trivial = any success, any truncated or stalled case; distinct by sha256 of the canonical case",
    "trusted_base": COMMON_TB + ["modelled not verified: parse_response (IQE.Engine.HttpParse); Rust from_utf8_lossy / split_whitespace / split_once / trim / to_ascii_lowercase / parse::<u16|usize> semantics as written in IQE.Core.Utf8, IQE.Core.Text, IQE.Core.TextMore",
                                 "the socket layer (tokio read_to_end, timeout wrapper) is exercised, not modelled: the model of `request` is `parse (bytes sent before close)`, or TimedOut when the peer stalls"],
    "assumptions": ["a response that declares no Content-Length is delimited by EOF only: a truncated one is indistinguishable from a complete one and is returned as success (kept behaviour, outside the statement)",
                    "a body longer than the declared Content-Length is returned unchanged"],
    "min_tags": {"parse:rendered": 1, "parse:cut": 1, "parse:soup": 1, "sock:get": 1, "sock:post_json": 1, "sock:request": 1, "stall": 1, "truncated": 1, "out:ok": 1, "out:err-InvalidData": 1, "out:err-TimedOut": 1, "out:err-UnexpectedEof": 1},
    "manifest": {
        "category": "proof",
        "text": "Lean theorems over the executable byte-level model of parse_response: no input panics (C16_total); a success never carries a body shorter than any declared Content-Length (C16_complete_or_error); every strict prefix of a rendered response with a declared length is an error (C16_prefix_rejected); rendered responses parse back to status, lower-cased headers and body (C16_roundtrip). Tied to the code by correspondence on rendered, truncated and malformed byte strings through the verif_parse_response hook, and through real sockets (get/post_json/request against a scripted server closing at every truncation point or stalling).",
        "design_ref": "DESIGN.md §6 C16",
        "level_note": "Trusted: Lean kernel; axioms propext/Classical.choice/Quot.sound; the hand-written model of parse_response and of the Rust std text functions it calls (validated by the correspondence runs only); harness generators; the OS socket layer. The theorems hold for the parser since /repo fix commit b8ec721 (finding C16-F1, status fixed, witness replayed from corpus/C16); the pre-fix parser is refuted by a kernel-checked witness.",
        "technique": "Lean 4 proof over executable model + differential correspondence with the Rust code",
    },
}
