ENTRY = {
    "level": "proof",
    "families": [fam("C17", 600, 30000)],
    "gen_items": [],
    "rule": "cases: REAL Iceberg tables written by the harness (JSON metadata files, Avro manifest list + manifests through apache-avro, Null or Deflate codec, v2 or v1 "
            "manifest schema, one small Parquet file per data file) with spec-conformant v2 manifest-list records (manifest_length, content, sequence numbers, added_snapshot_id, added/existing/deleted_files_count and *_rows_count "
            "consistent with the manifest's entries; 1/6 v1-style lists without counts) for generated histories of 1-8 ops (1/3 prefixed by: append >= 2 files into one manifest, remove some "
            "but not all of them, append again): append 1-4 files (50%), remove a random subset / everything / a file "
            "that is not there (30%), manifest rewrite (10%), metadata-only rewrite (10%); data-file, manifest and manifest-list URIs in one of the four accepted forms or "
            "mixed per file; metadata discovery: directory scan with increasing / all-equal / random last-updated-ms and file-name prefixes that disagree with it (3/4), or "
            "version-hint.text ('N' or 'vN', pointing at the newest, an older or a missing version) (1/4); opened at the current snapshot (2/3), a listed snapshot id or an "
            "unknown id; 1/3 of the tables carry one injected entry in one snapshot: delete file (live / DELETED), non-Parquet format (live / DELETED), remote URI, lower-case "
            "'parquet', the same file in two manifests. non-trivial = history of >= 2 ops that is served; distinct by sha256 of the canonical case",
    "trusted_base": COMMON_TB + [
        "modelled not verified: open_table / latest_metadata_file / data_files_of / resolve_uri (IQE.Engine.Iceberg); apache-avro and serde_json decoding; PathBuf ordering = numeric "
        "order of the harness' zero-padded file names",
        "the harness' Iceberg writer (encoding of a history into manifests) is checked on every case against the Lean encoder `encManifests` the refinement theorem is about",
    ],
    "assumptions": [
        "encodings are the ones Iceberg writers produce: a data file is live in at most one manifest of a snapshot's list and DELETED entries only occur in rewritten manifests "
        "(a table whose one manifest ADDs a file while another manifest of the same list marks it DELETED is outside the generated space; the reader would serve it)",
        "snapshot ids are distinct; partition specs, sequence numbers, schemas evolution and expired snapshots are not modelled",
    ],
    "min_tags": {"served": 1, "hint": 1, "scan-metadata": 1, "time-travel": 1, "has-remove": 1, "has-rewrite": 1, "refused-emptySnapshot": 1, "refused-unknownSnapshot": 1, "mlist:counts": 1, "mlist:v1": 1, "remove-then-append": 1},
    "manifest": {
        "category": "proof",
        "text": "Lean theorems over the executable model of the Iceberg reader and an abstract table history: for EVERY history of appends / removals / manifest rewrites / "
                "metadata rewrites, the reader's file set over the encoded manifests of every snapshot equals the sorted duplicate-free live set of that prefix (C17_refine, "
                "C17_refine_snapshots, by an invariant preserved by every operation); the answer is a set and a file is in it iff a non-DELETED entry names it (C17_files_sorted_nodup, "
                "C17_live_iff); metadata choice = vN of the version hint, else a (last-updated-ms, name)-maximal file (C17_current); the file set is served iff no live entry is a "
                "delete file / non-Parquet / remote, DELETED entries being skipped first, and open_table never serves an unknown, absent or empty snapshot (C17_refusals, "
                "C17_refusals_open); the four URI forms denote the stated path, other schemes are refused (C17_resolve_uri). Tie: correspondence on real tables; oracle = files and "
                "SELECT COUNT/SUM through register_iceberg vs the abstract live set of the history prefix chosen by the specification.",
        "design_ref": "DESIGN.md §6 C17",
        "level_note": "Trusted: Lean kernel; axioms propext/Classical.choice/Quot.sound; the hand-written model (validated by correspondence only); apache-avro / serde_json / parquet; "
                      "harness generators. No defect of the unchanged tree was found.",
        "technique": "Lean 4 refinement proof (abstract history -> manifests) over executable model + differential correspondence on real Iceberg tables",
    },
}
