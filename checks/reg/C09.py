ENTRY = {
    "level": "proof",
    "families": [fam("C09", 170, 6000, env={"RAYON_NUM_THREADS": "4", "TOKIO_WORKER_THREADS": "4"})],
    "gen_items": [],
    "rule": "one case = one sqlgen statement (strata rotating over filter / agg / join / sort_limit / subquery / distinct / setop / cte; joins of up to 3 tables incl. outer, semi, anti "
            "and cross joins, derived tables, GROUP BY with HAVING, ORDER BY / LIMIT / OFFSET) over a generated catalog of 1-3 tables (0-60 rows, NULL densities 0/10/50/100 %) written as "
            "1-3 Parquet files per table with row groups of 2/3/5/8/16/1000 rows; answered by the single-node engine over those files (`local`) and by execute_any_distributed over TWO "
            "clusters drawn from sizes 1..8 with the initiator holding a shard (`d<N>s<K>`) or none (`d<N>x`), every remote fragment served by the REAL execute_fragment + encode_ipc of a "
            "peer context through an in-process FragmentTransport; 30 % of the cases form the stratum tail:* = a plain single-block SELECT (with or without WHERE) whose ONLY trailing clauses are "
            "OFFSET k (4/7 of the stratum, tag tail:offset-only, >= 10 % of all cases), LIMIT n, LIMIT n OFFSET k without ORDER BY, or ORDER BY + OFFSET without LIMIT, run on clusters of "
            "2/3/5/8 and 1/2/3/5/8 participants (judged by Spec.sameAnswer: equal row count for LIMIT/OFFSET without ORDER BY; tag …:multi = at least two shards returned rows); "
            "of the other cases 1 in 12 is forced to match no row (`forced_empty`), 1 in 12 orders by a qualified input column while another "
            "output column carries that bare name (`shadow_order`); one environment (files + contexts) per catalog, 8 statements per catalog; "
            "non-trivial = at least two runs answered and some answer is non-empty; distinct by sha256 of the canonical case",
    "trusted_base": COMMON_TB + [
        "modelled not verified: the capability census walk_census / plan_distributed as the predicate IQE.Engine.DistPlan.scatterShape over the generator's resolved plan "
        "(K is one-directional: every scatter the code chooses must be admitted by the model; a gather is always admissible, so an over-cautious refusal is not detected)",
        "the partial / final SQL texts of Rewriter are not parsed back: the model states the rewrite on plans (partialAggs / finalAggsFrom / finalExprsFrom) and the correspondence runs "
        "compare ANSWERS, not texts",
        "the reference semantics IQE.Spec.{run, aggregate, sortKeyed, sameAnswer} and the lemma libraries of relalg (Bag, JoinDecomp, AggHom), ordering (Sorting, SortModel, KeyOrder) and "
        "the C04 owner (Layout.run_layout)",
        "split enumeration, LPT assignment and shard scans reassembling the table are C11 / C12 / C13's subject: here a shard is any sub-bag, the shards' concatenation is the table",
    ],
    "assumptions": [
        "typed aggregate inputs, no i64 overflow, float data exact (dyadic): hypotheses `Ok` of C09_two_phase; the generator's doubles are dyadic",
        "well-typed sort keys (hypothesis KeysTyped of C09_topn); NaN / -0.0 keys are engine-defined and not generated",
        "features with known single-node defects stay off as in every sqlgen family (correlated non-equi EXISTS / IN: C22-F1 / C23; NULL-keyed DISTINCT / GROUP BY without aggregates: C21-F2; "
        "INTEGER-vs-BIGINT keys: C29-F5) — they are wrong on every path, distributed included, and belong to those properties",
        "C09_gather is proved for the plan fragment LayoutFrag only (C09_gather_partial); the gather path as a whole is tied by the correspondence runs",
    ],
    "min_tags": {"shape:Concat": 1, "shape:TwoPhase": 1, "shape:TopN": 1, "shape:Gather": 1, "n:1": 1, "n:8": 1, "idle_node": 1, "multi_shard": 1,
                 "self": 1, "noself": 1, "forced_empty": 1, "f:join": 1, "f:agg": 1, "f:having": 1, "f:join_left": 1, "f:join_semi": 1, "f:limit": 1, "cfg:dist:right": 1,
                 "tail:offset-only": 17, "tail:offset-only:multi": 4, "tail:limit-only:multi": 1, "tail:limit-offset:multi": 1, "tail:order-offset:multi": 1, "tail:no_where": 5},
    "explanation": "Findings C09-F1..F5 and F7 are fixed (their switches / signatures in Driver.C09 only document the corpus witnesses; nothing is attributed to a fixed id, a recurrence "
                   "is a VIOLATION). C09-F6 (open) is attributed by signature + the neutraliser `neutral_mem1` the harness actually runs. Evidence tags dev:F2|F3:hit/miss/spurious and "
                   "sig:F1:hit/nofail measure how exactly the switches mirror(ed) the code.",
    "manifest": {
        "category": "proof",
        "text": "Lean theorems over the reference semantics Spec.run, for every data, every cut of the sharded table into any number of shards (empty shards and idle nodes included): "
                "a plan admitted by the model of the capability census (the table scanned once, in the main FROM tree, on the preserved side of every outer join and the probe side of every "
                "semi/anti join, never inside a subquery expression, no DISTINCT / set operation / window / LIMIT / aggregate below) is a bag homomorphism in the sharded table, with no new "
                "errors in either direction (C09_shard_safe_additive, _n, _no_new_errors, C09_empty_shard, C09_replicas_invariant; kernel-checked counter-examples for the NULL-supplying side "
                "and the SEMI/ANTI build side); the partial/final rewrite COUNT->SUM of counts, SUM, MIN, MAX, AVG as (sum,count) over GROUP BY equals the single-node aggregate incl. empty "
                "shards, all-NULL groups, groups present in some shards only, HAVING and projection after the merge (C09_two_phase, C09_two_phase_value, C09_two_phase_post, "
                "C09_two_phase_needs_a_row); the TopN merge over per-shard LIMIT+OFFSET prefixes is the single-node window up to ties and made of input rows (C09_topn); Concat "
                "(C09_concat); the shapes the model admits are exactly those with a decomposition theorem (C09_shape_exact_*). C09_gather is PARTIAL (C09_gather_partial: plan fragment "
                "scan/filter/project/joins without subquery expressions/UNION ALL/DISTINCT). Tied to the code by correspondence: execute_any_distributed over 1..8 real in-process "
                "participants on Parquet layouts vs the single-node engine on generated statements; the code's choice of shape and table must be admitted by the model. "
                "Found by this check and repaired in /repo: C09-F5 (WRONG ANSWER: worker-side GROUP BY over scaled shard statistics, 86e0558), C09-F7 (TopN re-sorted by an output "
                "column named like the order key, faff63a), C09-F1 / F2 / F3 (merge step failing where the single-node engine answers: 5eedc1f, 0ffff93, a981e18), C09-F4 (= C45-F1/F2); "
                "witnesses stay in corpus/C09. Open: C09-F6 (inherited layout-dependent single-node failure over in-memory tables).",
        "design_ref": "DESIGN.md §6 C09",
        "level_note": "Trusted: Lean kernel; axioms propext/Classical.choice/Quot.sound; the hand-written plan-level model of plan_distributed (validated by correspondence, one-directionally); "
                      "the reference semantics and shared lemma libraries; harness generators. Not covered: the SQL text of the rewritten statements (answers are compared instead), "
                      "aggregates / ORDER BY / subqueries above the gathered fragment in C09_gather, real sockets (C10 / C16 / C34), memory-bound refusal of large gathers.",
        "technique": "Lean 4 proof over the SQL reference semantics + plan-level model, metamorphic correspondence (single-node vs forced-distributed) with the Rust code",
    },
}
