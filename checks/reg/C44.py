_OPTS = {"prop": "C44", "strata": "values", "strict_err": "simple", "allow": "null_lit", "deny": "or,subquery", "joins": "1"}
ENTRY = {
    "level": "proof",
    "families": [fam("SQL", 300, 3000, opts={"quick": _OPTS, "thorough": dict(_OPTS, sizes="tiny,small,mid")})],
    "gen_items": [],
    "rule": "size stream (1 case in 12): VALUES lists of 1, 2, 999-1001, 1023-1025, 1500, 2048, 2049, 3000, 8192, 8193, 10001 rows, bare or under COUNT(*)/SUM/MIN/MAX; otherwise generated statements with a VALUES list of 1-5 rows x 1-3 literal columns (BIGINT/DOUBLE/VARCHAR/BOOLEAN/DATE, NULLs after the first row): "
            "bare VALUES, SELECT ... FROM (VALUES ...) v [WHERE], VALUES joined to generated tables (inner/outer/semi/anti/cross), VALUES aggregated; "
            "run through ExecutionContext::sql over single- and multi-batch memory tables; oracle = Spec.acceptable on the engine's rows, an engine error counts as failure; "
            "non-trivial = engine answered and the reference answer is non-empty; distinct by sha256 of the canonical case",
    "trusted_base": COMMON_TB + ["modelled not verified: planner arm LogicalPlan::Values (IQE.Engine.Values.lower)",
                                 "SQL reference semantics IQE.Spec (ours); SQL text <-> plan correspondence is the generator's (harness/src/sqlgen)"],
    "assumptions": ["VALUES rows hold literals only (the binder evaluates nothing else there); the first row is non-NULL (the engine types a column by its first row)"],
    "min_tags": {"f:values_bare": 1, "f:values_from": 1, "f:values_join": 1, "f:values_agg": 1, "f:values_long": 10},
    "manifest": {
        "category": "proof",
        "text": "Lean theorems: Spec.run of a VALUES list of literals is exactly its rows (all catalogs/environments); it is indistinguishable from a stored table with those rows under every operator context (congruence); the model of the planner's lowering equals the reference with all switches off and is wrong on EVERY non-empty list with the valuesEmpty deviation of the unchanged tree. Tie: generated VALUES statements through ExecutionContext::sql judged by Spec.acceptable.",
        "design_ref": "DESIGN.md §6 C44",
        "level_note": "Trusted: Lean kernel; propext/Classical.choice/Quot.sound; the reference semantics IQE.Spec; the generator's SQL printer/plan serializer pair; the 6-line model of the Values lowering. Contexts with the hole inside a subquery list or CTE definition are not covered by the congruence theorem (sampled only). The defect of the original tree (VALUES returned no rows, C44-F1) was repaired by /repo 70263df; its witness is replayed from corpus/C44 on every run.",
        "technique": "Lean 4 proof over reference semantics + executable model; differential correspondence with the Rust engine on generated SQL",
    },
}
