_Q = {}
_T = {}
_FORMS = ["in", "in_not", "exists", "exists_not", "scalar_agg", "scalar_row"]
ENTRY = {
    "level": "proof",
    "families": [fam("C23", 400, 4000, opts={"quick": _Q, "thorough": _T})],
    "gen_items": [],
    "rule": "one statement in three runs over an outer table holding FULLY duplicate rows (2-4 copies incl. id0, shuffled into the same and into different batches; tag outer:dup-rows) so that the row-by-row paths' per-outer-row caches (set/get_correlated_cache) get hits; generated statements over an outer table t0(id0,k0,x0,v0) and an inner table t1(id1,k1,y1,w1) (0-33 x 0-27 rows, key/operand types BIGINT/INTEGER/VARCHAR/DOUBLE/DATE, "
            "NULL density 0/10/50/100 % per column, duplicate correlation values, empty tables and empty subquery results): x [NOT] IN (SELECT y ...), [NOT] EXISTS (...), "
            "v <cmp> (SELECT agg(w) ...) incl. 0 = (SELECT COUNT(*) ...), x = (SELECT y ...) with 0/1/>1 rows; uncorrelated, equality-correlated, non-equality-correlated; as the whole WHERE, "
            "under AND, under OR, in the SELECT list; outer references qualified or bare; each statement run twice (production rules / SubqueryDecorrelation+FlattenDependentJoin removed) over "
            "single-batch and multi-batch memory tables (IN/EXISTS also Parquet); oracle = Spec.acceptable on the engine's rows, an engine error is a failure, a >1-row scalar subquery must fail; "
            "K = the executable model IQE.Engine.Subquery (all switches off) along the path the engine took (join / row by row) = engine rows; non-trivial = engine answered and the reference "
            "answer is non-empty; distinct by sha256 of the canonical case",
    "trusted_base": COMMON_TB + ["SQL reference semantics IQE.Spec (ours); SQL text <-> plan correspondence is the generator's (harness/src/sqlgen)",
                                 "modelled not verified: IQE.Engine.Subquery mirrors evaluate_in_subquery / execute_exists / execute_scalar / precompute_uncorrelated_scalars / "
                                 "decorrelate_exists / decorrelate_in_subquery / decorrelate_scalar_subquery by hand",
                                 "path taken by the engine (decorrelated or not) read off the physical plan's operator names (harness)"],
    "assumptions": ["comparisons are well-typed (one type per compared column pair); float NaN / -0.0 not generated",
                    "one subquery per statement, subquery FROM is a single table, correlation predicates compare one outer column with one inner column"],
    "min_tags": dict([(f"s:{f}:top:{r}", 3) for f in _FORMS for r in ("default", "nodecorr")] +
                     [(f"s:{f}:{p}:default", 1) for f in ("in", "in_not", "exists", "scalar_agg") for p in ("or", "select")] +
                     [("path:join:in", 3), ("path:rowbyrow:in_not", 3), ("path:join:exists", 3), ("path:join:scalar_agg", 3), ("path:rowbyrow:in", 3), ("path:rowbyrow:scalar_row", 3), ("outer:dup-rows", 60)]),
    "manifest": {
        "category": "proof",
        "text": "29 Lean theorems (IQE.Props.C23). Row by row: the model of evaluate_in_subquery's loop with the intended NULL handling IS Spec's three-valued IN / NOT IN for every operand "
                "and every well-typed set (C23_in_3vl, readable form C23_in_3vl_char, which rows a WHERE keeps C23_in_keeps_iff); EXISTS is never NULL (C23_exists); scalar subquery 0 rows = NULL, "
                "1 row = value, more = cardinality error, also through precompute_uncorrelated_scalars (C23_scalar, C23_scalar_precompute). Decorrelation, stated between two Spec.run expressions: "
                "sigma_[NOT] EXISTS = semi/anti join (C23_decorrelate_exists, syntactic instance _col); sigma_IN = semi join on x = y as filters (C23_decorrelate_in, _col); sigma_NOT IN = anti join IFF "
                "no partner-less outer row is blocked by a NULL y or a NULL x over a non-empty set (C23_not_in_anti, sufficiency, two necessity theorems, NOT IN = anti join minus blocked rows); correlated "
                "scalar aggregate = Left join with the grouped aggregate provided the NULL extension is replaced by the aggregate of the empty input, COUNT = 0 (C23_scalar_leftjoin, _is_left_join, "
                "_run through Spec.run of the join/aggregate plan, _count_bug). Tie: generated subquery statements on the real engine with and without the decorrelation rules, judged by Spec.acceptable; "
                "K compares the engine with the executable model along the path it took.",
        "design_ref": "DESIGN.md §6 C23",
        "level_note": "Trusted: Lean kernel; propext/Classical.choice/Quot.sound; the reference semantics IQE.Spec; the generator's SQL printer / plan serializer pair; the hand-written model "
                      "IQE.Engine.Subquery. The decorrelation theorems take the subquery 'correlated by a predicate' (its result under outer row l is S.filter (m l)) and ON meaning m as hypotheses; "
                      "syntactic instances are proved for a column equality. The original tree violated the property in 13 listed ways. Repaired in /repo by fix: commits (switch removed from the "
                      "active set, witness replayed from corpus/C23 on every run, a recurrence is a VIOLATION): C23-F1 NOT IN as plain anti join 47485db, C23-F2 row-by-row IN ignoring NULLs 08ac987, "
                      "C23-F4 mirrored operator of a non-equality correlated EXISTS 1caf07a, C23-F5/F6 lost correlation predicates of IN / scalar decorrelation 2272b7e, C23-F7 count bug 51cab70, "
                      "C23-F9 execute_scalar reading batches[0] only 8fe594c, C23-F10 result column typed from the first outer row 9a7f30b, C23-F12 COUNT/SUM multiplied by the semi-join reduction "
                      "ba41c49, C23-F13 row-by-row IN refusing DATE/BOOLEAN 69c41ef. Still open, mirrored by a deviation switch of the model (F11 by a signature) and printed as KNOWN-FINDING: "
                      "C23-F3 (A.26: a bare outer column is pruned from the operator's input, the ColumnNotFound error is swallowed: NULL / false for every row), C23-F8 swallowed cardinality / execution "
                      "errors of row-by-row correlated subqueries, C23-F11 a correlated IN that is not decorrelated fails 'Column not found'. "
                      "SAMPLED ONLY / NOT COVERED: decorrelated scalar subqueries over Parquet (scan-schema error unrelated to subqueries; Parquet is used for IN / EXISTS only); DATE operands of "
                      "scalar comparisons (untyped NULL literal); aliased self-correlation (FROM t0 x1 ... (SELECT ... FROM t0 x2 WHERE x2.c = x1.c)), nested subqueries, subqueries in HAVING / ON; "
                      "inputs above 1000 rows.",
        "technique": "Lean 4 proof over reference semantics + executable model; differential correspondence with the Rust engine on generated SQL, with and without the decorrelation rules",
    },
}
