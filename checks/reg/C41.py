ENTRY = {
    "level": "proof",
    "families": [fam("C41", 6000, 200000)],
    "gen_items": [],
    "rule": "cases: 40% the harness's own chunk encodings of random bodies (0..1023 bytes, binary / CRLF-heavy / printable; 1..n chunks; hex case, leading zeros; "
            "half of them with chunk extensions incl. quoted `;` and non-UTF-8 bytes; trailers), 30% well-formed chunks followed by a framing error that is "
            "malformed by construction (unterminated size line, non-hex size byte, size >= 2^64-2 or > 64 bits, chunk shorter than declared, data not followed by CRLF), "
            "25% lenient/junk byte strings (sign, ASCII and Unicode white space around sizes, invalid UTF-8, sizes ffffffffffffffff / 7fffffffffffffff, token soup), "
            "5% the same streams served by a scripted chunked HTTP server to GravitinoSource::catalog_type (-> http_get -> dechunk); "
            "non-trivial = encoding with >= 2 chunks, any malformed or socket case, junk the decoder did not reject; distinct by sha256 of the canonical case",
    "trusted_base": COMMON_TB + ["modelled not verified: the dechunk loop (IQE.Engine.Dechunk); Rust from_utf8 / str::trim / usize::from_str_radix(_,16) semantics as written in IQE.Core.Utf8, IQE.Core.Text, IQE.Engine.Dechunk.parseHexUsize",
                                 "panic model = debug build (overflow checks on, as the harness is built); the release-build wrap-around of `size + 2` is described, not modelled"],
    "assumptions": ["bytes after the last-chunk line (trailer section, final CRLF) are not inspected by the decoder and are outside the statement: the body is complete at that point",
                    "sizes written with a leading `+` or surrounded by (Unicode) white space are accepted by the code and by the model; they are compared (K) but not judged malformed"],
    "min_tags": {"enc": 1, "ext": 1, "bad:unterminated": 1, "bad:nonhex": 1, "bad:huge": 1, "bad:short": 1, "bad:nocrlf": 1, "junk": 1, "sock": 1, "out:some": 1, "out:none": 1},
    "manifest": {
        "category": "proof",
        "text": "Lean theorems over the executable byte-level model of dechunk: round trip for every body, every split into chunks, any hex case, with or without chunk extensions, any trailer (C41_roundtrip); no input panics (C41_total); unterminated size line / unparsable or non-hex size / size that overflows usize / short chunk / missing CRLF after data are rejected after any number of well-formed chunks (C41_malformed_rejected, C41_nonhex_size_rejected). Tied to the code by correspondence on generated chunkings, malformed streams and junk, through the verif_dechunk hook and through a real socket.",
        "design_ref": "DESIGN.md §6 C41",
        "level_note": "Trusted: Lean kernel; axioms propext/Classical.choice/Quot.sound; the hand-written model of dechunk and of Rust's from_utf8/trim/from_str_radix (validated by the correspondence runs only); harness generators. The theorems hold for the decoder since /repo fix commit 9d62852 (findings C41-F1..F3, status fixed, witnesses replayed from corpus/C41); the pre-fix decoder is refuted by three kernel-checked witnesses (chunk extension rejected, overflow panic, unchecked CRLF after data).",
        "technique": "Lean 4 proof over executable model + differential correspondence with the Rust code",
    },
}
