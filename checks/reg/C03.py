ENTRY = {
    "level": "proof",
    "families": [
        fam("C03", 160, 1600),
        # the shared SQL generator in meta mode: optimized vs unoptimized inside ONE layout (cross-layout differences are C04's)
        fam("SQL", 150, 1500, driver="SQL",
            opts={"quick": {"prop": "C03", "mode": "meta", "cfgs": "mem1,mem1+noopt",
                            "strata": "filter,case,join,agg,distinct,setop,cte,values,sort_limit", "deny": "subquery,gsets", "types": "i64,f64,date,bool,i64", "sizes": "tiny,small"},
                  "thorough": {"prop": "C03", "mode": "meta", "cfgs": "mem1,mem1+noopt,memb,memb+noopt,mem1+only:JoinReorder,mem1+without:JoinReorder",
                               "strata": "filter,case,join,agg,distinct,setop,cte,values,sort_limit", "deny": "subquery,gsets", "types": "i64,f64,date,bool,i64", "sizes": "tiny,small"}}),
        fam("SQL", 150, 1500, driver="SQL",
            opts={"quick": {"prop": "C03", "mode": "meta", "cfgs": "pq2x7,pq2x7+noopt,pq2x7+without:GroupKeyReduction", "nulls": "0",
                            "strata": "filter,case,join,agg,distinct,setop,cte,values,sort_limit", "deny": "subquery,gsets", "types": "i64,f64,date,bool,i64", "sizes": "tiny,small"},
                  "thorough": {"prop": "C03", "mode": "meta", "cfgs": "pq2x7,pq2x7+noopt,pq2x7+without:GroupKeyReduction,pq1x0,pq1x0+noopt,pq1x0+without:GroupKeyReduction", "nulls": "0",
                               "strata": "filter,case,join,agg,distinct,setop,cte,values,sort_limit", "deny": "subquery,gsets", "types": "i64,f64,date,bool,i64", "sizes": "tiny,small"}}),
    ],
    "gen_items": ["GroupKeyReduction::unique_key_gate", "ParquetTable::ndv_est_int", "PackedJoinKeys::pj_max2", "PackedJoinKeys::pj_k",
                  "PackedJoinKeys::pj_max1", "PackedJoinKeys::pj_overflow", "PackedGroupKeys::pg_k", "PackedGroupKeys::pg_overflow",
                  "PackedGroupKeys::pg_negative", "EagerAggregation::ea_k", "EagerAggregation::ea_negative", "EagerAggregation::ea_overflow"],
    "rule": "family C03 (adversarial statistics, 3/4 Parquet incl. 1-2 files, row groups of 2/3/5 rows, files or tables written WITHOUT statistics; 1/4 memory): "
            "streams gkr / gkr_join / left_count (key columns: dense or sparse unique, duplicates with max-min+1 >= row count, narrow duplicates, negative, nullable, "
            "two values far apart; dependent or independent decoration columns; ORDER BY .. LIMIT), packjoin / packjoin_shadow (two- and three-column equi joins, second keys at "
            "2^k-2 .. 2^k+1, negative keys, first keys near i64::MAX/4, same column names in both tables, derived columns b+c / b*c / a+c re-using a base column's name), "
            "packgroup / packgroup_shadow, eager (duplicated join keys, dual keys, nullable factors, SUM of products / sums / differences), shared_semi (tag shape:shared-name-semi: joins of tables "
            "sharing column names and self-joins through aliases under IN / NOT IN / EXISTS / NOT EXISTS on a qualified column of either input; the unoptimized plan cannot "
            "run a subquery predicate, the reference answer is the plan with only SubqueryDecorrelation applied, tag ref_decorr). Every statement runs unoptimized, "
            "with the production optimizer (with and without statistics, and through ExecutionContext::sql) and with each statistics-driven rule alone; plans are exported. "
            "family SQL (shared generator, meta mode; two runs): optimized vs unoptimized over memory tables, and over Parquet files with NULL-free data (a nullable GROUP BY "
            "key over Parquet takes different aggregation paths: C21/C04); all strata but subqueries and grouping sets (the unoptimized engine cannot run IN/EXISTS and does not "
            "bind GROUPING), tables of at most 60 rows (the unoptimized plan of a UNION over thousands of rows exceeds the 60 s case timeout, and the naive Spec evaluation of cross products over 300-row tables takes tens of minutes in the Lean driver), no VARCHAR columns (CROSS JOIN loses the NULLs of a left-side VARCHAR column: reported to C22). non-trivial = some rule changed the plan; distinct by sha256 of the case",
    "trusted_base": COMMON_TB + [
        "plan exporter + decoder (planexport.rs, Driver/PlanJson.lean)",
        "translator prelude of the gates: absDiff, nextPow2 (hand-written Lean models of i64::abs_diff / u64::checked_next_power_of_two, tested by translator/selftest)",
        "hand-written composition of the translated pieces into packJoinGate (the loop over the four bounds)",
        "the rewrite theorems are about Spec.run; that a rule's output is an instance of a proved rewrite is NOT checked per program (answers are compared instead)"],
    "assumptions": ["no arithmetic overflow / division by zero in generated statements", "LIMIT never truncates in the adversarial stream (no tie-dependent answers)"],
    "min_tags": {"shape:shared-name-semi": 8, "s:gkr": 10, "s:packjoin": 10, "s:packjoin_shadow": 3, "s:eager": 5, "s:left_count": 3, "fired:only:GroupKeyReduction": 5,
                 "fired:only:PackedJoinKeys": 5, "fired:only:EagerAggregation": 2, "fired:only:JoinReorder": 10, "layout_pq": 80, "f:negative_key": 2},
    "explanation": "O: every configuration returns the unoptimized plan's answer (bag equality; Spec.sameAnswer in the SQL family). K (family C03): ExecutionContext::sql "
                   "answers like the production configuration, and the TRANSLATED gates evaluated on the real footer statistics predict whether GroupKeyReduction "
                   "(stream gkr) and PackedJoinKeys (stream packjoin, incl. the modulus K) fired. Attribution: C03-F1 = rule fired + the statement over keys made unique "
                   "inside the same [min,max] passes; C03-F2 = the statement with the shadowing alias renamed passes; C03-F4 = EagerAggregation fired and its plan multiplies "
                   "an integer SUM by CAST(__ea_cnt AS DOUBLE); everything else is a VIOLATION.",
    "manifest": {
        "category": "proof",
        "text": "Lean: verified rewrites over Spec.run with their exact side conditions (conjunct splitting, filter through project / inner join / into the preserved side of a "
                "left join and NOT into the null-supplying side, projection merging, inner-join commutativity and associativity with predicate re-attachment, semi/anti join "
                "push-down, OR common-factor extraction with absorption in 3VL, group-key reduction under a unique key, packed keys injective and inside i64); gate soundness "
                "over the statistics gates TRANSLATED from the Rust source on every run: the PackedJoinKeys gate is sound when the bounds hold for the key data "
                "(C03_pack_gate_sound), the GroupKeyReduction unique-key gate is not (C03_unique_gate_unsound, witness k=[1,1,5]). Tie: optimized vs unoptimized answers for "
                "every statistics-driven rule alone and the production order over memory and Parquet tables with adversarial statistics, plus the shared SQL generator in "
                "meta mode; the translated gates are cross-checked against the rules' behaviour on the real footer statistics.",
        "design_ref": "DESIGN.md §6 C03",
        "level_note": "Proof of the rewrite library and of the gates + differential correspondence; not a proof that each Rust rule only applies these rewrites. Findings: "
                      "C03-F1 (unique key inferred from an estimate) open; fixed during this work: C03-F2 pack bounds by unqualified name (3d7ebfd), C03-F3 OR factoring (2941c55), "
                      "C03-F4 eager aggregation integer SUM -> NULL (0ffae9f), C03-F5 packed group keys over a computed key (6d04930), C03-F6 runtime join filter through a computing "
                      "projection (37d79b8); LIMIT as a push-down barrier (858a9cb, found by C43).",
        "technique": "Lean 4 proofs over the reference SQL semantics and translated gate code + differential testing of optimizer configurations",
    },
}
