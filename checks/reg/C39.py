ENTRY = {
    "level": "proof",
    "families": [fam("C39", 600, 6000, opts={"quick": {"gens": 10, "max_gen_k": 300}, "thorough": {"gens": 60, "max_gen_k": 5000}})],
    "gen_items": [],
    "rule": "cases: the first `gens` cases generate all eight tables with TpchGenerator::with_seed(sf, seed) (quick: 10 generations, sf <= 0.003; thorough: 60, sf <= 0.05) "
            "as (sf,seedA), (sf,seedB), (sf,seedA) in one process and on 8 concurrent threads interleaving both seeds — each compared byte for byte with what a FRESH child process generates for that (sf,seed) alone (history independence, tag hist), seedA/seedB required to differ in every table with RNG-dependent columns (>= 100 rows; nation/region have none) — and every 4th case also through generate_to_parquet in a child process + read-back; all runs are "
            "compared byte for byte (Arrow IPC encoding of every table; Parquet read-back column by column) and every key column is shipped to the driver. "
            "The remaining cases sweep TpchRowCounts::for_scale_factor over [0.001, 0.05]: multiples of 0.001, k/100000, dyadic k/65536, and a list of named values. "
            "Non-trivial = a generation with >= 100 lineitems, or a count case with >= 1 supplier; distinct by sha256 of the canonical case",
    "trusted_base": COMMON_TB + [
        "modelled not verified: the key-column expressions of tpch/generator.rs (IQE.Engine.Tpch); rand's StdRng/gen_range are NOT modelled — the RNG is an arbitrary "
        "stream in the theorems and the RNG-dependent key columns are checked by range / state-machine relation only",
        "Arrow IPC encoding as the witness of byte-identity; the Parquet writer/reader for the read-back comparison",
    ],
    "assumptions": [
        "row counts: the model is floor(ratio*sf) over the exact rational value of the f64 scale factor; the hardware f64 product may round across an integer "
        "(tag f64-product-rounds-across-integer), in which case the hardware value is accepted as well",
        "scale factors in [0.001, 0.05] (all table sizes positive); smaller scale factors make `% 0` panic and are outside the property",
        "primary-key uniqueness of partsupp (ps_partkey, ps_suppkey) is not part of the stated property and is not checked: the generator repeats each pair",
    ],
    "min_tags": {"hist": 1, "gen": 1, "counts": 1, "parquet": 1, "exact-ratios": 1, "truncated-ratios": 1, "sf-breaks-partsupp-fk": 1, "sf-keeps-partsupp-fk": 1},
    "manifest": {
        "category": "proof",
        "text": "Lean theorems over the key columns of the TPC-H generator as pure functions of row index and ARBITRARY RNG streams: primary keys are exactly 1..count; "
                "every foreign key lands in its parent's key range for every stream and every positive size (model with switches off); counts are floor(ratio*sf) and keep "
                "the exact TPC-H ratios when 10000*sf is an integer; the composite (l_partkey,l_suppkey) key of the index-derived scheme exists in partsupp IFF "
                "lineitems <= partsupp or lcm(parts,suppliers) <= partsupp; purity. Tied to the code by byte-identical repeated / concurrent / Parquet generations and by "
                "checking every generated key column. Open known finding C39-F1: o_custkey is drawn from 1..=1.5*customers (a deliberate, commented choice of the generator), so about a third of the orders "
                "reference no customer. C39-F2 (partsupp composite key broken for truncating scale factors) was repaired by fix: commit 169f5ae; its witness is replayed from corpus/C39.",
        "design_ref": "DESIGN.md §6 C39",
        "level_note": "Trusted: Lean kernel; axioms propext/Classical.choice/Quot.sound; hand-written model of the key expressions; rand crate (stream arbitrary in the "
                      "theorems); harness generators; Arrow IPC / Parquet for comparisons. Non-key columns are covered by the byte-identity runs only.",
        "technique": "Lean 4 proof over executable model + differential correspondence with the Rust code",
    },
}
