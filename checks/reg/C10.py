ENTRY = {
    "level": "proof",
    "families": [fam("C10", 320, 6000, env={"RAYON_NUM_THREADS": "2"})],
    "gen_items": [],
    "rule": "per configuration (random Parquet layout of tables f,g under $IQE_SCRATCH x cluster of 1..5 in-process participants x position of the initiator x one of 7 statements "
            "covering Concat/TwoPhase/TopN/Gather(1 and 2 tables)): one `decode` case per table = the Arrow IPC body of a real fragment answer (execute_fragment + encode_ipc) with "
            "decode_ipc applied to EVERY truncation offset (bodies > 6000 bytes: every offset within 12 bytes of a message boundary + stride 97); then `scatter` cases = "
            "execute_any_distributed behind a fault-injecting FragmentTransport: no fault, every basic fault kind (transport error, HTTP 500/400/503, empty/garbage/zeroed-head/JSON payload, "
            "stale peer = digest mismatch) x every shard of every table alone, 7 truncations per shard (message boundaries +-{1,3,4,7}, EOS marker missing, one byte short, random), "
            "wrong declared row count, and random pairs on distinct shards; non-trivial = a decode body with rows, or a scatter case whose fault hits an ACTIVE REMOTE shard; "
            "distinct by sha256 of the canonical case",
    "trusted_base": COMMON_TB + [
        "modelled not verified: scatter_sql_over_table / execute_gathered control flow (IQE.Engine.Coordinator.scatter/runQuery); arrow-ipc StreamReader framing (readMsg/decodeLoop); "
        "the driver's minimal flatbuffer reader fbHdr (Message.header_type/bodyLength, RecordBatch.length) — all three validated by the correspondence runs only",
        "arrow-rs record-batch decoding inside a well-framed message (library code)",
    ],
    "assumptions": [
        "a payload whose bytes are corrupted but still form a well-framed Arrow IPC stream with the declared row count is not detectable (the protocol carries no checksum) and is not claimed",
        "failure of the initiator's OWN shard is covered by the theorems but not injected by the harness (no hook to make the in-process execute_fragment fail)",
        "faults are injected at the FragmentTransport seam; the socket level (HttpTransport, Content-Length) is C16's subject",
    ],
    "min_tags": {"decode": 1, "dec-multibatch": 1, "scatter": 1, "f-transport": 1, "f-http": 1, "f-bad": 1, "f-digest": 1, "f-trunc": 1, "pair": 1,
                 "shape-Concat": 1, "shape-TwoPhase": 1, "shape-Gather": 1, "res-err-transport": 1, "res-err-payload": 1},
    "explanation": "K compares with the intended model (all deviation switches off). The driver can additionally accept the model with the switches of an OPEN finding set "
                   "(attribution only if that model explains the output exactly and the intended model satisfies the oracle); the list is empty since C10-F1 was fixed (caf22ad). "
                   "Each decode case also runs the patched decoder compiled into the harness and requires it to equal the intended model.",
    "manifest": {
        "category": "proof",
        "text": "Lean theorems over the executable model of the scatter-gather coordinator: any failing active shard of any table (own shard, transport error, HTTP error, undecodable payload) "
                "makes the query a fragment error and the final step never runs; an answer is produced iff every active shard delivered a complete payload and then consists of all of them; "
                "every strict prefix of a framed Arrow IPC fragment response is rejected provided the decoder demands the end-of-stream marker (alternatively: the declared row count or the "
                "declared length is enforced). Tied to the code by correspondence: real in-process participants over real Parquet files behind a fault-injecting FragmentTransport, and "
                "decode_ipc on every truncation offset of real fragment bodies. Finding C10-F1 (decode_ipc accepted a body cut at a message boundary; the coordinator "
                "ignored the declared row count) was repaired by /repo commit caf22ad; its kernel-checked witness stays in the proof file and its replay witness in corpus/C10.",
        "design_ref": "DESIGN.md §6 C10",
        "level_note": "Trusted: Lean kernel; axioms propext/Classical.choice/Quot.sound; the hand-written model of the coordinator loop and of arrow-ipc's message reader (validated by correspondence only); "
                      "the harness's fault injector and generators. Not covered: socket-level truncation (C16), checksum-less corruption inside a well-framed payload, failure of the initiator's own shard (theorem only).",
        "technique": "Lean 4 proof over executable model + differential correspondence with the Rust code under fault injection",
    },
}
