ENTRY = {
    "level": "proof",
    "families": [fam("C14", 150, 10000)],
    "gen_items": [],
    "rule": "cases: an initiator copy and a worker copy of a table written as REAL Parquet directories (1..5 files with distinct names, 1..7 row groups incl. empty ones); "
            "the worker copy is the initiator's with ONE mutation: none (25%), one file-name character changed, a row group split in two (same rows), one more / one fewer row, "
            "different byte size through string padding, a file dropped / added, table not registered, or equal copies with one bit of the sent digest flipped; shard_count 0..64, "
            "shard_index in range, = count, or beyond. The initiator's digest is computed by the real enumerate_parquet on the initiator copy; execute_fragment runs `SELECT k FROM t` on the worker. "
            "K = same outcome as the model (error kind: digest_mismatch / shard_index / table_not_found; or ran with the same ShardStats and exactly the row keys of the model's shard). "
            "O from the two copies' contents only (names + footers read back with the parquet crate): copies differ, digest flipped, table missing or index out of range => must fail; "
            "equal copies and index in range => must run, return no row twice, only rows of the table, and report as many rows as it returned. "
            "non-trivial = >= 2 shards; distinct by sha256 of the canonical case",
    "trusted_base": COMMON_TB + [
        "modelled not verified: execute_fragment/shard_context control flow (IQE.Engine.Shard.fragment) over the C11/C12 models; SQL execution on the shard is observed, not modelled, here (C13)",
        "parquet crate footer reader; ParquetTable::try_new directory listing (non-recursive, *.parquet)",
    ],
    "assumptions": [
        "copies that differ only in VALUES (same names, layout, row counts, byte sizes) have equal digests and are outside the property as stated",
        "64-bit digest collisions: the general 'any difference is detected' is not provable; C14_attribute_detected_partial covers single-attribute changes within two low bytes / one name byte",
    ],
    "min_tags": {"ran": 15, "err:digest_mismatch": 30, "err:shard_index": 4, "err:table_not_found": 2, "mut:rename": 2, "mut:regroup": 2, "mut:extra_row": 2,
                 "mut:pad": 2, "mut:flip_digest": 2, "index-out": 10, "count0": 4, "should-run": 15, "should-refuse": 40},
    "manifest": {
        "category": "proof",
        "text": "Lean theorems over the executable model of execute_fragment (for every deviation-switch setting): a fragment runs only if the worker's own enumeration has exactly the request's digest and the "
                "shard index is below max(shard_count,1), and then over exactly that part of the LPT assignment; any digest difference yields the digest-mismatch error; an out-of-range index never runs. "
                "PARTIAL: a change of one attribute of one split confined to the two low bytes of its little-endian encoding (byte size, row count, offset, row-group index) or to one file-name byte "
                "always changes the digest (FNV step bijective; multiplying by the prime moves a low-byte difference out of the low byte) — the unrestricted claim is impossible for 64 bits. "
                "Tied to the code by correspondence on real Parquet copies differing in one attribute.",
        "design_ref": "DESIGN.md §6 C14",
        "level_note": "Trusted: Lean kernel; axioms propext/Classical.choice/Quot.sound; hand model of execute_fragment (validated by correspondence); C11/C12 models; parquet crate; harness generators. Partial: digest sensitivity beyond single small attribute changes is sampled only.",
        "technique": "Lean 4 proof over executable model + differential correspondence with the Rust code on real Parquet files",
    },
}
