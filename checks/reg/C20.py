ENTRY = {
    "level": "proof",
    "families": [fam("C20", 40, 1500)],
    "gen_items": [],
    "rule": "cases: REAL Parquet tables (k Int64, s Utf8 with 1/2/3/7/40/5000 distinct values and dictionary pages on (3/4) or off, w Utf8 unique without dictionary; every "
            "2nd/5th/11th k and w NULL or none), 1-6 row groups of 1-60 rows, 1/10 of 4200-5000 rows (wide dictionary > 4096 values => demotion), 1/16 of the cases with a first "
            "row group of 66k-69k rows (re-sliced into 65 536-row views). Per case three copies of the file and one child process per QE_IPC_CACHE in {0, 1, unset}: mode 0 answers; "
            "mode 1: 2-8 threads scan a cold copy at once (they race to build its sidecar under BUILD_LOCK), then cold + warm answers on another copy, then the sidecar of that copy "
            "is read back row group by row group; mode auto: answers with the sidecar built by the mode-1 child, and on a copy that never had one. Answers = 5 SQL queries "
            "(COUNT/SUM, WHERE k > c, GROUP BY s, WHERE s = 'v1', COUNT(w)) + a provider scan summary. Every 8th case is a SCHEDULED interleaving on the real code through the yield points "
            "40-46 of ipc_cache.rs (child processes parked on control files): xproc-race (builder A parked with both locks and a complete staging directory, builder B of another process released towards the lock; A publishes; a reader "
            "process passes is_fresh and is parked before open(rg_k); if B got past the lock it is steered through remove_dir_all(final); the reader is released), xproc-safe (B finishes before the reader starts), "
            "inproc (thread A parked holding BUILD_LOCK with its staging complete while threads B, C arrive). non-trivial = table with >= 2 rows; distinct by sha256 of the case",
    "trusted_base": COMMON_TB + [
        "modelled not verified: the sidecar protocol steps of ensure_sidecar / build_sidecar / read_row_group (IQE.Engine.Sidecar); atomicity of single file-system steps "
        "(create+write of a private file, unlink, rmdir, rename of a directory), mmap-after-unlink keeping the mapped content (OS assumptions)",
        "Arrow/Parquet library code: dictionary coercion through a coerced reader schema, arrow::compute::cast demotion, concat_batches, IPC writer/FileDecoder (sampled by the round-trip runs only)",
    ],
    "assumptions": [
        "fixed source file during a history (the required stamp does not change; rewrites are C19)",
        "of the cross-process interleavings only the witness schedule and one safe schedule are driven on the real code (yield points 40-46, /repo 325dad0); the others are covered by the model theorems; "
        "a scheduled case whose control-file waits time out (machine overloaded) is tagged sched-timeout and judged only for 'no wrong rows'",
    ],
    "min_tags": {"sidecar-dict": 1, "sidecar-plain": 1, "sched-xproc-race": 1, "sched-inproc": 1},
    "manifest": {
        "category": "proof",
        "text": "Lean theorems over a small-step protocol model of the sidecar code (atomic single file-system steps, remove_dir_all as a sequence of unlinks, BUILD_LOCK per process), "
                "quantified over every interleaving of any number of builders and readers: within one process a reader that saw a fresh .complete opens every row group, whole "
                "(C20_inprocess, invariant proof); across processes no reader ever maps a partially written file and the final directory only holds whole files "
                "(C20_crossprocess_partial) — PARTIAL: full cross-process safety is false, C20_crossprocess_witness is the kernel-checked 17-step interleaving (two processes, one reader) "
                "in which the second builder's remove_dir_all deletes rg_0 of the winner's fresh directory between the reader's is_fresh and open (the reader gets an I/O error, never wrong rows); "
                "re-slicing loops are partitions (C20_roundtrip_partial; dictionary coercion/demotion is library code, sampled only). Tie: real files, answers under QE_IPC_CACHE=0/auto/1 cold and "
                "warm must be identical, sidecar content = decoded row groups, 2-8 racing in-process threads, and scheduled interleavings through yield points. The witness interleaving was REPRODUCED on the real "
                "code (reader failed with 'No such file or directory'): finding C20-F1, repaired by fix: 87eecb0 (cross-process file lock), for which C20_crossprocess_of_shared_lock is the full-strength "
                "theorem; the race schedule is still driven on every run (it can only bite if the second builder is not excluded while the first holds the lock) and its old witness is replayed from corpus/C20.",
        "design_ref": "DESIGN.md §6 C20",
        "level_note": "Trusted: Lean kernel; axioms propext/Quot.sound; the protocol model; OS atomicity assumptions; Arrow/Parquet libraries; harness generators. Partial: the per-process-lock protocol is unsafe across processes "
                      "(C20_crossprocess_witness; fixed in the tree by 87eecb0); advisory file locks, OS rename atomicity and mmap-after-unlink are assumptions.",
        "technique": "Lean 4 invariant proofs over a small-step concurrent protocol model + explicit counterexample trace + differential runs on real files across cache modes and threads",
    },
}
