ENTRY = {
    "level": "proof",
    "families": [fam("C13", 200, 8000)],
    "gen_items": [],
    "rule": "cases: a table written as a REAL Parquet directory (1..5 files with distinct names, 1..7 row groups of 0..300 rows incl. empty ones, string padding 0/8/64 so cuts fall inside row groups), "
            "node counts 0, 1, 2..8, 12..31; the real splits_of + assign_lpt + shard_context are run for EVERY shard index; per shard: ShardStats, raw provider.scan(Some([k])), parquet_files(), and "
            "3..6 queries SELECT cols FROM t [WHERE p]: cols = any non-empty sub-sequence AND permutation of the three same-typed integer columns k (key), v (nullable, -3..12), w (= 10^6 + 3k; "
            "row-group min/max ranges of k, v, w are pairwise disjoint, so statistics read from the wrong column prune wrongly); p a single comparison / BETWEEN / IS [NOT] NULL on k, v or w; half of the queries are "
            "forced into the shape where the filter column's position in the projected schema differs from its position in the file (SELECT v .. WHERE v <= c, SELECT w,k .. WHERE w ..; tag proj:nonprefix+filter). "
            "Every query runs as SQL over each shard context and over the unsharded table, and — when cols is increasing in table order — at provider level as scan_with_filter(projection, planner Expr) "
            "(tag provider:nonprefix+filter). Top-level predicates only, the class the C02 findings do not touch. K = every shard returns exactly the rows the model (C11 enumerate + C12 assign + key ranges of the owned splits) predicts, raw and per query, and the same stats. "
            "O on the implementation's outputs only: one shard per node, parquet_files() is None on every shard, the union of the raw shard scans is the key set 0..n-1 exactly once, and for every query the "
            "union of the shard answers equals pi(sigma_p(table)) computed in Lean from the table's values under SQL three-valued semantics; at provider level (the pushed filter is a performance device) "
            "pi(sigma_p(table)) <= union <= pi(table) as multisets. "
            "non-trivial = >= 2 nodes and >= 2 rows; distinct by sha256 of the canonical case",
    "trusted_base": COMMON_TB + [
        "modelled not verified: read_split/scan_impl (IQE.Engine.Shard) — Arrow/Parquet RowSelection, RowFilter and projection internals are trusted and cross-checked by the runs only",
        "row-group pruning soundness (property C05) enters the theorem as the explicit hypothesis PruneSound",
        "parquet crate writer/reader; ParquetTable directory listing; SQL planner above the scan (observed, not modelled)",
    ],
    "assumptions": [
        "filters are single top-level predicates on integer columns; composite predicates with NULLs are the subject of C02 and excluded here so that its open findings cannot mask a C13 failure",
        "ShardedParquetTable::new is public and accepts arbitrary splits (negative offsets are not range-checked); only split sets built by the coordinator are in the property",
    ],
    "min_tags": {"shards": 50, "multi-file": 15, "multi-row-group": 15, "sub-row-group": 15, "filter": 40, "filter-nullable": 10, "idle-shards": 3, "nodes0": 2,
                 "proj:nonprefix+filter": 60, "provider:nonprefix+filter": 40, "proj:permuted": 30},
    "manifest": {
        "category": "proof",
        "text": "Lean theorems over the executable model of ShardedParquetTable's scan: for every table layout (list of row groups), every contiguous cover of each row group by pieces, every ordering of the splits, "
                "every partition of the split indices over any number of nodes, every filter, projection and sound pruning verdict, each shard scan succeeds and the union over the nodes is a permutation of "
                "pi(sigma_phi(table)) (C13_reassembly; instantiated with the real cut of C11 and assign_lpt of C12 in C13_reassembly_lpt); read_split is range-checked; the sharded provider exposes no file list. "
                "Tied to the code by running shard_context for every shard index on real multi-file / multi-row-group / sub-row-group Parquet tables.",
        "design_ref": "DESIGN.md §6 C13",
        "level_note": "Trusted: Lean kernel; axioms propext/Classical.choice/Quot.sound; hand model of read_split/scan_impl; Arrow/Parquet internals; C05 as hypothesis; harness generators.",
        "technique": "Lean 4 proof over executable model + differential correspondence with the Rust code on real Parquet files",
    },
}
