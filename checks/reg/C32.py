ENTRY = {
    "level": "proof",
    "families": [fam("C32", 150, 1500)],
    "gen_items": [],
    "rule": "cases: connected join graphs of 2..7 relations (chain, star, cycle, random tree + extra edges, clique <= 4; 1/3 of the edges composite, "
            "1/12 three-column), ~10% disconnected; naming U (unique column names, half unqualified), S (same key name on both sides, qualified), "
            "A (self-joins of 1-2 base tables under aliases); SQL forms JOIN..ON in a random connected traversal, comma / CROSS JOIN list + WHERE in "
            "random order, JOIN with the extra predicates in WHERE; tables of 0..50 rows, key domain 2..4, NULLs; memory tables with the statistics withheld (mem0), memory tables (row-count "
            "statistics only) and Parquet files (footer statistics, 1-2 files, row groups of 3/5/all rows). Each case: bound plan, production optimizer "
            "(after the final PackedJoinKeys pass), JoinReorder alone; non-trivial = connected graph with >= 3 relations; distinct by sha256 of the case",
    "trusted_base": COMMON_TB + [
        "plan exporter harness/src/planexport.rs (structural rendering of the public LogicalPlan/Expr enums) and its decoder lean/Driver/PlanJson.lean",
        "extraction of (graph, tree) from an exported plan: IQE.Engine.PlanGraph (executable, not verified; cross-checked on every case against the graph the generator rendered)",
        "modelled not verified: the DPsize enumeration itself (only its invariant C32_dpsize_pairs and the per-program checker are proved)"],
    "assumptions": ["relations of a query have distinct names (aliases); equality predicates are column = column (expression keys are not graph edges for the rule either)"],
    "min_tags": {"connected": 50, "layout_pq": 20, "layout_mem": 10, "layout_mem0": 10, "shape_cycle": 3, "shape_star": 3, "shape_chain": 3, "naming_A": 5, "naming_S": 5,
                 "opt_reordered": 10, "jr_reordered": 10, "opt_packed": 1},
    "explanation": "K = the join graph read off the bound plan equals the graph the generator rendered (validates exporter, decoder and extraction on every case). "
                   "O = validReorder(g_bound, t) for the production plan and for JoinReorder alone when g is connected (decided by the greedy order, complete by C32_exists), "
                   "plus answer equality with the unoptimized plan. Plans the optimizer fails to produce are tagged opt_err/jr_err and judged by C31, not here. "
                   "A failing production plan is attributed to C32-F1 only if validReorderDev (deviation blindRelations: relations rooted in a Project are invisible to the rule) "
                   "accepts it, JoinReorder alone passes the strict checker and the answers agree.",
    "manifest": {
        "category": "proof",
        "text": "Lean theorems over the join-graph model: a connected graph always has a cross-free join tree using every relation once and every equality "
                "predicate once, constructed by the greedy adjacent-extension order which never gets stuck (C32_exists); joining two connected, predicate-linked "
                "sub-plans is connected (DPsize invariant, C32_dpsize_pairs); the checker validReorder is sound and complete for 'same relations as a bag, every "
                "join node has an equality predicate across its sides, predicates preserved exactly once' (C32_checker_sound/_complete). Tie: per generated query "
                "(2..7 relations, chains/stars/cycles/cliques/composite keys, memory and Parquet statistics) the exporter reads (g, t) off the bound plan and off "
                "the plans after the production optimizer (final PackedJoinKeys pass included) and after JoinReorder alone; validReorder is evaluated in Lean; the "
                "optimized answers must equal the unoptimized plan's answer.",
        "design_ref": "DESIGN.md §6 C32",
        "level_note": "Proof of existence / invariant / checker + per-program validation (translation-validation style) on sampled queries; the DPsize search and the "
                      "cost model are not modelled. Trusted: Lean kernel, the three standard axioms, plan exporter + decoder + graph extraction, generators.",
        "technique": "Lean 4 proof over a join-graph model + checker evaluated on plans exported from the real optimizer",
    },
}
