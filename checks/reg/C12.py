ENTRY = {
    "level": "proof",
    "families": [fam("C12", 6000, 200000,
                     opts={"quick": {"exh_n": 7, "exh_size": 6, "exh_nodes": 4}, "thorough": {"exh_n": 9, "exh_size": 6, "exh_nodes": 4}})],
    "gen_items": [],
    "rule": "placeholder",
    "trusted_base": COMMON_TB,
    "assumptions": [],
    "min_tags": {},
    "manifest": {
        "category": "proof",
        "text": "placeholder",
        "design_ref": "DESIGN.md §6 C12",
        "level_note": "placeholder",
        "technique": "Lean 4 proof over executable model + differential correspondence with the Rust code",
    },
}
