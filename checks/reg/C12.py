ENTRY = {
    "level": "proof",
    "families": [fam("C12", 3000, 200000,
                     opts={"quick": {"exh_n": 8, "exh_size": 6, "exh_nodes": 4}, "thorough": {"exh_n": 10, "exh_size": 7, "exh_nodes": 5}})],
    "gen_items": [],
    "rule": "cases: (a) ENUMERATION of every multiset of <= 8 split sizes in 1..6 on 2..4 nodes (9009 instances; thorough: <= 10 sizes in 1..7 on 2..5 nodes) as "
            "synthetic SplitSets; (b) 75% random SplitSets (0..400 splits, nodes 0..64, size regimes: heavy ties incl. 0, boundary sizes 4MiB/64MiB+-1, up to 2^40, "
            "overflow candidates near 2^64; 1-2 tables, 1-4 file names incl. non-ASCII and empty, duplicate canonical keys, negative/zero row counts, shuffled order, "
            "total_bytes sometimes unrelated to the splits); (c) 25% random small instances (<= 10 splits, sizes up to 50, 1..5 nodes). "
            "K = exact equality of the whole Assignment (per_node, node_bytes, node_rows, node_splits, nodes, total_bytes) or panic<->modelled overflow. "
            "O on the implementation's Assignment: node count, partition of 0..n, per-node byte/row/count sums, totals, canonical order inside each node, identical result for a "
            "clone with different mount paths, and maxLoad <= (4/3-1/(3N)) x OPT with OPT by brute force when n <= 10 (tag bound-brute), else against the lower bound "
            "max(ceil(total/N), p_1, p_N+p_{N+1}) (tag bound-lb; if that sufficient test fails the case is counted bound-inconclusive, not failed). "
            "non-trivial = no panic, >= 2 splits and >= 2 nodes; distinct by sha256 of the canonical case",
    "trusted_base": COMMON_TB + [
        "modelled not verified: the body of assign_lpt (IQE.Engine.Lpt); Rust slice::sort_by/sort_by_key stability (model uses a stable sort, proved equal to List.mergeSort)",
        "str ordering = bytewise lexicographic on UTF-8 (Rust std), modelled on byte lists",
        "brute-force optimum in the oracle (IQE.Engine.Lpt.bruteOpt) is unverified code; it only feeds the oracle for the half of the 4/3 bound that is not proved",
    ],
    "assumptions": [
        "u64/i64 `+=` overflow panics in the checked (dev) build the harness uses and is mirrored as Outcome.panic; the theorems are over unbounded naturals (a real table's totals fit)",
        "the hard half of Graham's 4/3 theorem (all splits up to the critical one exceed OPT/3, where LPT is optimal) is NOT proved: C12_lpt_bound_partial; covered by enumeration only",
    ],
    "min_tags": {"small": 1000, "set": 1000, "bound-brute": 1000, "bound-lb": 100, "size-ties": 500, "zero-bytes": 50, "dup-keys": 20, "nodes0": 20, "nodes>n": 100, "panic": 1},
    "manifest": {
        "category": "proof",
        "text": "Lean theorems over the executable model of assign_lpt, for every split list and node count (induction over the greedy fold): partition of the split indices, "
                "per-node byte/row/count sums and totals, canonical per-node order and tie-break rules (stable (bytes desc, key asc) order; lowest-index least-loaded node), "
                "Graham's inequality N*maxLoad <= total + (N-1)*p_l, hence maxLoad <= (2-1/N)*makespan of ANY assignment, and the 4/3-1/(3N) bound whenever the critical split is "
                "<= a third of that makespan (C12_lpt_bound_partial). The remaining case of the 4/3 bound is checked by exhaustive enumeration of small instances against a brute-force optimum, not proved. "
                "Tied to the code by exact differential correspondence of the whole Assignment.",
        "design_ref": "DESIGN.md §6 C12",
        "level_note": "Trusted: Lean kernel; axioms propext/Classical.choice/Quot.sound; the hand-written model of assign_lpt (validated by correspondence only); harness generators. "
                      "Partial: 4/3 bound proved only for p_l <= OPT/3; the other half is enumeration (<= 8 splits, <= 4 nodes, sizes <= 6 in the quick tier; <= 10 / 5 / 7 thorough).",
        "technique": "Lean 4 proof over executable model + differential correspondence with the Rust code + labelled exhaustive enumeration for the unproved half of the bound",
    },
}
