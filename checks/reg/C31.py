ENTRY = {
    "level": "proof",
    "families": [fam("C31", 250, 2500)],
    "gen_items": [],
    "rule": "cases: 45% statements of the shared SQL generator (all strata: filter case join agg distinct setop cte values gsets subquery sort_limit) over "
            "generated catalogs; 20% join queries of the C32 generator (2..7 relations, chains/stars/cycles/cliques, composite keys); 10% the C03 "
            "adversarial-statistics stream (group-key reduction, packed join/group keys incl. shadowing derived columns, eager aggregation); 10% templates "
            "aimed at ConstantFolding, DeriveOrPredicates, FlattenDependentJoin, SubqueryDecorrelation, SemiJoinPushdown, HavingTotalCse, VectorSearchPushdown; "
            "15% (tag shape:shared-name-semi) joins of tables that share column names (ta, tb: id, k, fk, v + one column of their own) "
            "and self-joins through aliases under IN / NOT IN / EXISTS / NOT EXISTS predicates on a qualified column of either input, join written as JOIN / comma / CROSS / "
            "without aliases / three-way / swapped; "
            "layouts mem0 (statistics withheld) / mem (row counts) / pq (Parquet footer statistics). Per case: every production rule alone on the bound plan, SemiJoinPushdown alone on the decorrelated plan, "
            "every plan-changing step of the production fixpoint (replayed rule by rule), the production optimizer's result, and real executions of the bound, "
            "final and changed plans; non-trivial = at least one rule changed the plan; distinct by sha256 of the case",
    "trusted_base": COMMON_TB + [
        "plan exporter harness/src/planexport.rs and its decoder lean/Driver/PlanJson.lean",
        "the exported-plan model IQE.Engine.PlanWf: run-time resolution order (find_column_index) and which schema each physical operator emits "
        "(src/physical/planner.rs) are transcribed by hand; validated on every case by executing the plans (K)"],
    "assumptions": ["column and relation names contain no '.'", "statements that do not bind are skipped (no valid plan)"],
    "min_tags": {"r:JoinReorder:alone_fired": 10, "r:PredicatePushdown:alone_fired": 20, "r:ProjectionPushdown:alone_fired": 20, "r:PackedJoinKeys:step_fired": 1,
                 "r:SubqueryDecorrelation:alone_fired": 2, "layout_pq": 50, "layout_mem0": 20, "run_ok": 100,
                 "shape:shared-name-semi": 30, "f:side_right": 8, "r:SubqueryDecorrelation>SemiJoinPushdown:alone_fired": 3},
    "explanation": "O = no rule returns Err/panics on a plan the checker accepts, and wf(after) && preserved(before, after) && noNewBad(before, after) for every rule application "
                   "(each rule alone; each step of the production fixpoint; the production optimizer as a whole), judged in Lean on exported plans. "
                   "K = the model's run-time predictions against real executions: a plan the checker accepts does not fail with ColumnNotFound when the "
                   "unoptimized plan runs, and the result width equals the model's emitted schema.",
    "manifest": {
        "category": "proof",
        "text": "Lean: the checker preserved(before, after) implies equal output column names and types (C31_checker_sound); a plan accepted by wf never raises "
                "column-not-found in the run-time model of the exported plans, for every catalog and every interpretation of the scalar/aggregate/window/"
                "subquery operators (C31_wf_runs); the qualifier check accepts a qualified reference only if the column the engine's resolution reads in the scope "
                "it reads from is named exactly so, physically or through the enclosing SubqueryAlias (C31_qual_sound; the engine's suffix fallback otherwise lets `b.k` "
                "read `a.k` without any error), and a rule that introduces no offending reference keeps a clean plan clean (C31_no_new_bad). Tie: translation validation per program — for each generated bound plan, every production rule alone, "
                "every step of the production fixpoint and the production optimizer, with and without statistics, rule.optimize must not fail and "
                "(before, after) must pass wf && preserved && noNewBad as judged in Lean on plans exported from the real optimizer.",
        "design_ref": "DESIGN.md §6 C31",
        "level_note": "Proof of the checker + per-program validation over sampled programs (not a proof about the Rust rules). Trusted: Lean kernel, the three "
                      "standard axioms, exporter/decoder, the hand-transcribed resolution order and operator schemas (cross-checked by executing the plans).",
        "technique": "Lean 4 proof over an exported-plan model + translation validation of optimizer rules",
    },
}
