ENTRY = {
    "level": "proof",
    "families": [fam("C15", 2000, 60000)],
    "gen_items": ["PeerStatus", "Membership::up_was_down", "Membership::up_status", "Membership::up_failures", "Membership::up_generation", "Membership::down_was_up", "Membership::down_status", "Membership::down_failures", "Membership::down_generation"],
    "extra_props": ["IQE.Props.C15Gen"],
    "rule": "one case = one whole history (1..30 ops) on a fresh Membership over a universe of 3..8 addresses drawn from a pool that holds this "
            "node in several spellings (127.0.0.1:p, localhost:p, LOCALHOST:p, [::1]:p, 127.1:p, [::ffff:127.0.0.1]:p, the machine's LAN address), "
            "port-only neighbours (p+1), other hosts, and unparsable strings; self address varies (loopback spellings, 0.0.0.0:p, foreign, LAN, unparsable); "
            "ops: 30% set_members (same list / same set reordered with a duplicate / one gone / one more / empty / random), 30% record_up, 28% record_down, "
            "12% record_resolve_error, probes biased to current members; every view (members, generation, resolved, peer_addresses, last_resolve_error, "
            "returned changes) compared after EVERY op; non-trivial = some set_members changed the peer set and some probe hit a current member; "
            "distinct by sha256 of the canonical case",
    "trusted_base": COMMON_TB + [
        "modelled not verified: Membership state machine (IQE.Engine.Membership); BTreeMap/HashSet/sort_by semantics as written there",
        "is_self_address (DNS, getifaddrs) is the environment: measured once per address at the start of a case and passed to the model; the theorems "
        "assume of it only is_self_address(self, self) = true, and that its answers do not change during a history",
        "Lean String.< (code-point lexicographic) = Rust str Ord (byte-wise on UTF-8)",
        "wall-clock fields (last_seen_unix_ms, last_resolved_unix_ms) are observed only as is_some()",
    ],
    "assumptions": ["fewer than 2^64 generation bumps (u64 `generation += 1` modelled on Nat)",
                    "set_self_flight / set_discovery are not part of the histories (they do not touch the state the property is about)",
                    "single-threaded histories: every method takes the one state mutex for its whole body, concurrent callers are serialised by it"],
    "min_tags": {"set-change": 1, "reresolve-same": 1, "self-alias-in-set": 1, "self-in-set": 1, "probe-member": 1, "probe-nonmember": 1,
                 "status-flip": 1, "resolve-error": 1, "churn-keeps-probed-peer": 1},
    "manifest": {
        "category": "proof",
        "text": "Lean theorems over the executable model of Membership, for EVERY operation history of any length over any address universe and an "
                "arbitrary is_self predicate (only is_self(self)=true assumed): invariant (peers strictly sorted, never contain this node in any "
                "spelling) proved for new() and preserved by set_members/record_up/record_down/record_resolve_error, hence members() lists this node "
                "exactly once, strictly sorted and duplicate-free (C15_reachable); a resolve error changes nothing of the view "
                "(C15_resolve_error_keeps); generation never decreases (C15_generation_monotone), advances by one whenever set_members changes the "
                "peer set (C15_generation_advances, _set), and re-resolving the same set keeps generation and every peer record "
                "(C15_reresolve_preserves). Tied to the code by correspondence on generated histories with every public view compared after every op; "
                "the property predicate is also evaluated directly on the implementation's observations.",
        "design_ref": "DESIGN.md §6 C15",
        "level_note": "Trusted: Lean kernel; axioms propext/Classical.choice/Quot.sound; the hand-written model of Membership (validated by the "
                      "correspondence runs only); is_self_address itself (DNS/interfaces) is an environment parameter, sampled not proved; harness generators.",
        "technique": "Lean 4 proof (invariant + induction over histories) over executable model + differential correspondence with the Rust code",
    },
}
