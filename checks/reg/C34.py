ENTRY = {
    "level": "proof",
    "families": [fam("C34", 200, 2000, env={"RAYON_NUM_THREADS": "4"})],
    "gen_items": ["MAX_ENCODE_ROWS", "MAX_TICKET_BYTES", "parse_mode", "DistMode::parse_value", "DistMode"],
    "rule": "one world per run: a single node, a 3-node cluster and a node whose loader failed, spawned in-process with the Arrow Flight endpoint enabled, over a 10 000-row Parquet table "
            "(1-2 files, row groups of 3000/5000/10000) plus a small dimension table. Cases: 1/8 DoGet with hand-made tickets (not JSON, oversized, version 0/2, unknown mode, missing fields, empty, "
            "valid); 1/8 GetFlightInfo command validation (bad JSON, empty, non-UTF-8, oversized, missing sql, blank sql, every mode spelling); 3/4 GetFlightInfo -> DoGet with an arrow-flight client "
            "vs POST /sql?format=arrow on the same node for the same statement and mode: result sizes 0, 1, 4096, 4097, 5000, 8192, 8193, 10 000, aggregates, join, gather shapes, "
            "ORDER BY/LIMIT, error statements (syntax, unknown column/table, constant select under force). non-trivial = an answered query with rows, or any validation case",
    "trusted_base": COMMON_TB + [
        "modelled not verified: the loop of encode_flight_stream (sliceLoop/flightStream), the checks of do_get / parse_command (validateTicket/validateCommand) — validated by correspondence only",
        "arrow-flight / tonic client and server libraries, arrow IPC encoding of a slice (library code)",
        "the engine's batch lengths are observed through the HTTP Arrow body of the same statement; two runs may order batches differently, so slice lengths are compared as multisets",
    ],
    "assumptions": ["both doors are queried on the same node in the same membership state (the harness waits for convergence first)"],
    "min_tags": {"ticket-refused": 1, "ticket-run": 1, "cmd-refused": 1, "answered": 20, "rows-0": 1, "rows-1": 1, "rows-4096": 1, "rows-4097": 1, "rows-10000": 1, "resliced": 1,
                 "cluster-1": 1, "cluster-3": 1, "dist-true": 1, "dist-false-off": 1, "mode-spelling-off": 1},
    "manifest": {
        "category": "proof",
        "text": "Lean theorems over the executable model of the Flight front door: for every list of batch lengths the DoGet stream re-slices each batch into contiguous slices that cover it exactly, "
                "each at most MAX_ENCODE_ROWS (translated constant) rows, followed by exactly one zero-row trailer, the only message carrying the metadata; the rows delivered equal the sum of the batch "
                "lengths (the trailer's row count); ticket and command validation are decision tables over the translated MAX_TICKET_BYTES (malformed, oversized, unknown-version, unknown-mode refused); "
                "both doors run the same decision function and derive the same mode from every spelling except \"off\" (Flight accepts it, HTTP refuses it — stated as found). Tied to the code by "
                "correspondence: arrow-flight client vs HTTP on real spawned nodes (1- and 3-node), rows/schema/decision/trailer compared, message lengths compared with the model's slicing.",
        "design_ref": "DESIGN.md §6 C34",
        "level_note": "Trusted: Lean kernel; axioms propext/Classical.choice/Quot.sound; the hand-written model of encode_flight_stream and the ticket checks (validated by correspondence only); arrow-flight/tonic. "
                      "Not covered: dictionary-encoded columns in the stream, gRPC message-size limits, concurrent DoGet streams.",
        "technique": "Lean 4 proof over executable model + translator-generated constants + differential correspondence (Flight client vs HTTP) over real in-process nodes",
    },
}
