ENTRY = {
    "level": "proof",
    "families": [fam("C18", 700, 30000)],
    "gen_items": [],
    "rule": "cases: multi-file (1-4) REAL Parquet tables written by the harness, 1-4 columns over Int64/Int32/Int16/Date32/Timestamp (+ Utf8/Float64 "
            "bystanders), 0-7 row groups per file of 1-24 rows (one write+flush each), per-file per-column NULL density in {0,10,50,100}% plus all-NULL "
            "chunks, value domains small/medium/per-file-offset/wide; per file: statistics disabled for all or some columns (prob 1/5, 1/6 per column), "
            "page-level statistics (1/5); 1/6 of the tables are the 'extreme' stratum (values at the type's min/max, all statistics on), 1/6 the 'unsigned' stratum (UInt32/UInt64 columns incl. values >= 2^31 / 2^63, all statistics on); 1/25 carry a "
            "corrupt extra file; opened by directory (2/3) or explicit file list. The footer part of the case (null_count, min/max, bytes) is read back "
            "from the written file through the parquet crate. non-trivial = >= 2 row groups and >= 2 rows; distinct by sha256 of the canonical case",
    "trusted_base": COMMON_TB + [
        "modelled not verified: the footer fold of ParquetTable::compute_statistics (IQE.Engine.StatsFold); the dictionary-page NDV probe for string columns is not modelled",
        "parquet crate: footer parsing (Statistics::{Int32,Int64} min_opt/max_opt/null_count_opt) and the Arrow writer producing truthful chunk statistics "
        "(hypothesis ReportsSound of the theorems; cross-checked on every case: written values vs scan vs footers)",
        "harness build profile: dev with overflow checks (an arithmetic overflow in the fold would panic and be reported; a release build would wrap silently)",
    ],
    "assumptions": [
        "all files of a table have the same flat schema with distinct lower-case column names (the fold keys chunks by lower-cased dotted path)",
        "the extreme-range stratum, the statistics-less stratum and the unsigned-column stratum (UInt32/UInt64; a UInt64 column holds either only values < 2^61 or only values >= 2^63) "
        "are generated in separate tables so each known defect is attributed on its own; their interplay in one column is not sampled",
    ],
    "min_tags": {"has-silent-chunk": 1, "all-report": 1, "all-null-chunk": 1, "impl-ok": 1, "unsigned-col": 1},
    "manifest": {
        "category": "proof",
        "text": "Lean theorems over the executable model of the footer fold (Engine.StatsFold), for every table (any files / row groups / chunks, any mix of "
                "chunks with and without statistics): row count = rows of every column (C18_rows_exact); a published null count is the true NULL count and is "
                "published iff every chunk reports one (C18_nulls_exact, C18_nulls_present_iff); for the intended algorithm every non-NULL value lies within "
                "the published min/max, assuming only that what a footer reports is true of its chunk (C18_minmax_sound[_table]); statistics() cannot fail "
                "(C18_stats_total). The tree deviated in three places (repaired by fix: 35af6bd; each remains a deviation switch with a kernel-checked negation witness, and its real-file "
                "witness is replayed from corpus/C18 on every run): C18-F1 (a chunk without statistics keeps the other chunks' min/max as table bounds) C18-F2 ((max-min) overflow panics) and C18-F3 (unsigned columns' footer bounds read as signed). "
                "Tie: correspondence on real Parquet files (statistics() vs model on the footers read back; oracle = statistics vs a scan).",
        "design_ref": "DESIGN.md §6 C18",
        "level_note": "Trusted: Lean kernel; axioms propext/Classical.choice/Quot.sound; the hand-written model of the fold (validated by correspondence only); the parquet "
                      "crate's writer/footer reader; harness generators. Not covered: 'an estimate never decides an answer' (ndv_est consumers) is C03's gate soundness, "
                      "here only ndv_est <= non-null rows and no-panic are proved; the string-column dictionary NDV probe; nested columns; decimal/float bounds (not published by the fold).",
        "technique": "Lean 4 proof over executable model + differential correspondence with the Rust code on real Parquet files",
    },
}
