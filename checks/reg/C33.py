ENTRY = {
    "level": "proof",
    "families": [fam("C33", 2000, 120000, opts={"thorough": {"exhaustive": "60", "explore_cap": "20000"}})],
    "gen_items": [],
    "rule": "one case = programs of 2..4 real threads (1..5 ops each: try_allocate / allocate / resize / drop on their own reservations) on one real "
            "MemoryPool plus a schedule; the harness controller (verif::yield_point ids 1..6) lets exactly one thread perform one atomic operation at a "
            "time and reads pool.used() after every granted step. A third of the quick budget (60% thorough) enumerates ALL interleavings of small "
            "programs (2 threads x <=3 ops, 3 threads x <=2 ops; stateless DFS over schedule prefixes, capped per program set), the rest are bursty random "
            "schedules. Sizes: contended around a small limit (max/2, max/2+1, max, max+1, 0), forced allocations above the limit, and boundary values "
            "(usize::MAX, 2^63, overflow of checked_add, wrap-around of fetch_add). Non-trivial = at least two threads moved and a thread switch happened "
            "while another thread was between its load and its CAS; distinct by sha256 of the canonical case",
    "trusted_base": COMMON_TB + [
        "modelled not verified: the atomic-step model of MemoryPool/MemoryReservation (IQE.Engine.MemPool)",
        "memory model: single-location atomic RMWs on `used` are totally ordered (C++/Rust coherence) — the only memory-model fact assumed; the "
        "initial Relaxed load and every failed CAS may return ANY value in the model, so stale reads are covered by the theorems",
        "the scheduled replay only produces sequentially consistent executions with one thread running at a time (loads return the latest value); "
        "weak-memory behaviours of real hardware are covered by the theorems' nondeterministic loads, not by the runs",
        "verif-hooks yield points sit immediately before each atomic operation of memory.rs (ids 1..6)",
    ],
    "assumptions": ["no-underflow / exact accounting / within-limit are stated for true sums below 2^64 (beyond that `used` is the sum modulo 2^64, which is what C33_inv proves)",
                    "reservations are not leaked with mem::forget (then `used` would stay above the live sum by construction)",
                    "target usize is 64 bit"],
    "min_tags": {"try-some": 1, "try-none-at-load": 1, "try-none-after-retry": 1, "cas-retry": 1, "switch-between-load-and-cas": 1, "grow": 1, "shrink": 1,
                 "drop": 1, "forced-over-limit": 1, "try-none-overflow": 1, "wrapped": 1, "try-only": 1, "leftover": 1},
    "manifest": {
        "category": "proof",
        "text": "Lean theorems over a small-step model with one step per atomic operation of memory.rs (initial load and failed CAS return ANY value, "
                "CAS may fail spuriously), by induction over the step relation for every number of threads and every interleaving of any length: "
                "used = sum of live reservation sizes mod 2^64, exact when the sum is below 2^64 (C33_inv, C33_inv_exact); every successful CAS of "
                "try_allocate yields used = old+n <= max without wrap (C33_try_within_limit); with only try_allocate/shrink/drop used <= max in every "
                "reachable state (C33_try_only_never_exceeds); every fetch_sub of a drop/shrink subtracts at most used (C33_no_underflow); used = 0 "
                "once all reservations are dropped (C33_returns_to_zero). Tied to the code by scheduled replay of real threads on the real atomics: "
                "the observed trace must be a valid run of the model (all interleavings of small programs + random schedules); the property "
                "predicate is also evaluated directly on the observed trace.",
        "design_ref": "DESIGN.md §6 C33",
        "level_note": "Trusted: Lean kernel; axioms propext/Classical.choice/Quot.sound; the hand-written atomic-step model (validated by the scheduled "
                      "replays only); total order of RMWs on one atomic location; the scheduler harness. Real weak-memory reorderings are not executed, "
                      "only covered by the model's arbitrary-value loads. Partial per DESIGN §7 (memory model).",
        "technique": "Lean 4 proof (invariant by induction over an interleaving step relation) + deterministic scheduling of real threads via yield-point hooks",
    },
}
