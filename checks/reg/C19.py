ENTRY = {
    "level": "proof",
    "families": [fam("C19", 80, 4000)],
    "gen_items": [],
    "rule": "cases: histories of 4-10 ops on one REAL path per case: write (one Int64 column, fixed-width PLAIN/uncompressed so that equal row-group layout => equal "
            "length; layouts of 1-6 row groups incl. > 4 (parallel read path); values in three disjoint ranges so every rewrite changes statistics; mtime set "
            "explicitly to one of 6 instants in two adjacent seconds, 1/2 'same as the previous version'; 3/4 of rewrites keep the layout), query (ParquetTable::scan, "
            "SQL COUNT/SUM, SQL COUNT/SUM WHERE k > c with c between the value ranges; fresh provider 2/3, same registered provider 1/3), build (another process "
            "with QE_IPC_CACHE=1 reads the file). One child process per QE_IPC_CACHE in {0, auto, 1} (1/4, 1/4, 1/2 of the cases). "
            "non-trivial = at least one query after a rewrite; distinct by sha256 of the canonical case",
    "trusted_base": COMMON_TB + [
        "modelled not verified: the cache protocol 'equal stamp => serve entry, else re-derive' of cached_metadata / cached_reader_builder[_with_schema] / is_fresh (IQE.Engine.CacheStamp), "
        "as ONE abstract cache per layer; which query path consults which layer is not modelled (attribution uses a stamp-collision signature over the history instead)",
        "the file system reports length and mtime truthfully (the harness reads them back after File::set_modified and ships them in the case)",
    ],
    "assumptions": [
        "single path per history, single column; schema-cache (Arc pointer identity) and sidecar_dict_cols / ParquetTable::stats_cache (no stamp) staleness is proved possible in the model "
        "(C19_current_stamps_unsound, third part) but was not reproduced as a wrong answer on real files and is not listed as a finding",
        "attribution signature: a failing query is attributed to C19-F1 / C19-F2 iff the current version collides under that layer's stamp with a different-content version that was "
        "current at an earlier query/build (eviction is ignored: over-approximation); every other failing query is a new VIOLATION",
    ],
    "min_tags": {"mode-0": 1, "mode-1": 1, "mode-auto": 1, "rewrite": 1},
    "manifest": {
        "category": "proof",
        "text": "Lean theorems over an abstract stamp-validated cache in front of a file system (Engine.CacheStamp: ops write/query over path -> (content,len,mtime), any stamp function): "
                "for every history, if the stamp separates the versions written to each path then every query returns the current content (C19_coherent_of_sound_stamp, by invariant "
                "induction); the condition is tight for any stamp (C19_stale_of_collision); the stamps the code uses - (len, mtime in seconds) for sidecars, mtime for footers, nothing "
                "for sidecar_dict_cols / stats_cache - have explicit write/query/rewrite/query witness histories that serve stale content (C19_current_stamps_unsound). "
                "Tie: histories on real files with controlled length and mtime under QE_IPC_CACHE=0/auto/1; oracle = every answer equals the answer over the file's current content. "
                "The unchanged tree violates the property by construction: known findings C19-F1 (sidecar) and C19-F2 (footer cache), both reproduced as silent wrong answers on real files.",
        "design_ref": "DESIGN.md §6 C19",
        "level_note": "Trusted: Lean kernel; axioms propext/Quot.sound; the abstract cache model (one cache per layer); file-system metadata; harness generators. Partial in the tie: the layered "
                      "real caches are compared relationally (a non-fresh answer must be explained by a stamp collision), not path by path.",
        "technique": "Lean 4 proof (invariant over all histories) + explicit counterexample histories + differential correspondence on real files",
    },
}
