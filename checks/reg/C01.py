_ALLOW = "null_distinct,null_multi_key,null_lit,group_noagg,key_expr,agg_expr,cast,concat,inner_limit,mixed_width,not_in,not_exists,nonequi_corr,corr,corr_free,scalar_select,join_residual,multi_rel_key"
_OPTS = {"prop": "C01", "strata": "all", "neutral": "1", "allow": _ALLOW}
ENTRY = {
    "level": "proof",
    "families": [fam("SQL", 400, 4000, opts={"quick": _OPTS, "thorough": dict(_OPTS, sizes="tiny,small,small,mid")})],
    "gen_items": [],
    "extra_props": ["IQE.Props.C01Pipeline"],
    "rule": "generated statements over generated catalogs (1-3 tables x 2-5 columns BIGINT/INTEGER/DOUBLE(dyadic)/VARCHAR/DATE/BOOLEAN, NULL density 0/10/50/100 %, "
            "small domains, 0-60 rows in 1-4 batches; two catalogs per run carry a table of ~1001-2049 resp. 8193-10001 rows in several batches: tag data:big), primary stratum rotating over filter, case, join, agg, distinct, setop, cte, values, gsets, subquery, sort_limit "
            "with the other strata mixed in; run through ExecutionContext::sql (registration rotates over memb = generated batches, mem1 = one batch, mem8c = 6-12 batches with the NULLs of one nullable column clustered into whole leading/trailing batches); oracle = Spec.acceptable on the engine's rows; "
            "an engine error is not a wrong answer (tag impl:err:*), a panic is; skipped when the reference reports overflow / division by zero / unsupported; "
            "non-trivial = engine answered and the reference answer is non-empty; distinct by sha256 of the canonical case. "
            "Attribution: exact (set-operation model) or signature + neutraliser (nonull: NULLs replaced by fresh values; noopt: optimizer off) re-run on the real engine.",
    "trusted_base": COMMON_TB + ["SQL reference semantics IQE.Spec (ours, ~700 lines); SQL text <-> resolved plan correspondence is the generator's (harness/src/sqlgen/ast.rs)",
                                 "no engine model of the whole pipeline yet: K is 'engine rows acceptable to the reference', i.e. K = O for this property"],
    "assumptions": [
        "NOT COVERED by the default stream (generator features off; named defect areas owned by other properties): two derived relations with equal column names in one FROM "
        "(dup_derived_names: A.27), group keys / DISTINCT columns / accumulator inputs whose NULLs are computed (outer join, NULL literal, NULLIF; computed_null_key: C21/A.24-A.25 - "
        "the data neutraliser cannot remove them), MIN/MAX over VARCHAR (str_minmax, null_str_minmax: C21), AVG and aggregate DISTINCT (avg, agg_distinct: C21), BOOLEAN and DOUBLE group keys "
        "(refused by the engine / engine-defined), window functions (reference semantics pending C26)",
        "signature-only findings (C01-F23c correlated subquery, C01-F22b two or more joins, C01-F27b grouping sets over a join) mask a NEW defect inside those statement classes; "
        "they are tried last, after the exact set-operation model and the nonull / noopt neutralisers",
        "integer division / modulo, overflow, NaN / -0.0 / +-inf ordering are engine-defined: not generated (magnitudes are tracked) or skipped",
        "LIMIT / OFFSET below the top level only over an ORDER BY on all output columns",
    ],
    "min_tags": {"s:filter": 1, "s:join": 1, "s:agg": 1, "s:setop": 1, "s:cte": 1, "s:values": 1, "s:gsets": 1, "s:subquery": 1, "s:sort_limit": 1, "s:distinct": 1, "s:case": 1, "impl:right": 100, "data:big": 8, "layout:mem8c": 100, "shape:global-agg-clustered": 25, "layout:memb": 100, "layout:mem1": 100},
    "manifest": {
        "category": "proof",
        "text": "CAPSTONE C01_pipeline_refines_spec (IQE/Props/C01Pipeline.lean): the engine modelled as the composition of the switch-off operator models (Engine.Filter, Engine.HashJoin, Engine.Acc, Engine.SortLimit, Engine.Values) returns, for EVERY execution configuration (any re-partitioning/re-chunking of every operator input, either build side, any per-group merge tree, fused or unfused top-k) and every catalog, an answer that Spec.acceptable accepts, on the plan fragment scan/VALUES/filter/project/7 join types/COUNT-SUM-MIN-MAX group-by/DISTINCT/UNION ALL with a top-level ORDER BY / LIMIT (by structural induction on the plan; excluded: INTERSECT/EXCEPT/UNION-distinct, windows, grouping sets, CTE, subquery expressions, AVG and DISTINCT aggregates — covered by their own properties' theorems and by the correspondence runs only); plus C01_pipeline_error_or_right. Lean theorems about the oracle itself, for every plan / catalog / table: the executable bag comparison is exactly multiset equality (List.Perm) and an equivalence; for plans without top-level ORDER BY / LIMIT `acceptable` = 'is a permutation of Spec.run's answer', accepts the reference answer, is invariant under permutation of the engine's rows, and never accepts anything when the reference reports an error; LIMIT/OFFSET over an unordered input accepts the reference answer. Tie: generated SQL over all strata through ExecutionContext::sql judged by Spec.acceptable. C01_pipeline_refines_spec (engine model refines Spec for every plan) is pending the per-operator models of C02/C21-C28/C44 and is NOT claimed.",
        "design_ref": "DESIGN.md §6 C01",
        "level_note": "Trusted: Lean kernel; propext/Classical.choice/Quot.sound; reference semantics IQE.Spec; generator's printer/serializer pair. Partial: the quantifier over statements is sampled (no pipeline model yet); ORDER BY shapes of acceptable_refl need C25's total-preorder lemma. Unchanged tree: violated through the operator properties; inherited failures are attributed to C01-F21 (aggregation NULL handling), C01-F22 (join NULL handling), C01-F23 (subquery NULL handling), C01-F24a/b (set operations, exact model), C01-F03 (an optimizer rule changes the answer) by signature + neutraliser re-run on the real engine; anything else is reported.",
        "technique": "Lean 4 proof over the reference semantics; differential testing of the Rust engine against it on generated SQL with neutraliser-based attribution",
    },
}
