ENTRY = {
    "level": "proof",
    "families": [fam("C40", 5000, 150000)],
    "gen_items": [],
    "rule": "cases: result sets of 1..4 columns (Utf8, LargeUtf8, Int64, Int32, UInt64, Boolean, Float64) x 0..5 rows cut into 0..n record batches (empty batches, no batch at all), "
            "printed by the real OutputFormatter (src/cli/output.rs compiled into the harness from /repo's working tree) as CSV or JSON (50/50); every string (cells and 30% of the column names) is a random interleaving of character classes: plain ASCII | needs quoting/escaping (quote, comma, CR, LF, backslash, tab) | "
            "C0 controls | 2-byte | 3-byte | 4-byte UTF-8 (incl. U+0080, U+07FF, U+0800, U+2028, BOM, U+FFFF, U+10000, U+10FFFF); in 60% of the strings of length >= 2 one escape-needing AND one non-ASCII character are forced in "
            "(about 40% of all strings combine both; tag esc+utf8, required >= 1000 of 5000 cases); NULL density 1/6; integers at the type extremes and 2^53+-1; "
            "floats incl. NaN, +-inf, -0, 1e21, MIN_POSITIVE (their Display text is an input of the model); non-trivial = at least one row; distinct by sha256 of the canonical case",
    "trusted_base": COMMON_TB + ["modelled not verified: write_csv / format_csv_value / write_json / format_json_value / format_display_value for string, integer, boolean, float and NULL cells (IQE.Engine.CliOutput)",
                                 "the readers IQE.Spec.Csv (RFC 4180, LF or CRLF) and IQE.Spec.JsonTable (RFC 8259, array of flat objects) are the specification of 'parses back'",
                                 "Rust Display of integers and finite floats (the text is taken from Rust and only checked to be a JSON number that denotes the expected token)"],
    "assumptions": ["the harness calls the formatter in-process (format_to_string), not through `query_engine repl` stdout: the REPL passes the same batches to the same OutputFormatter::print",
                    "dates, decimals and nested (list/struct/map) columns, max_rows truncation, and the table/vertical formats are not covered",
                    "CSV prints nothing at all for an empty batch list (not even the header): outside the statement, compared with the model only"],
    "min_tags": {"csv": 1, "json": 1, "esc+utf8": 1000, "json:esc+utf8": 500, "csv:esc+utf8": 500, "null": 1, "special-chars": 1, "multi-batch": 1, "no-batches": 1, "no-rows": 1},
    "manifest": {
        "category": "proof",
        "text": "Lean theorems over the executable character-level model of the CLI's CSV and JSON writers: for every header and all cell texts the RFC 4180 reader returns exactly header and rows (C40_csv_roundtrip, C40_csv_cells); for all column names and all rows of NULL / string / boolean / integer / non-finite float cells the JSON reader returns exactly the name/value pairs (C40_json_roundtrip). Tied to the code by correspondence on generated result sets printed by the real OutputFormatter, whose output is also parsed back by the two reference readers (oracle).",
        "design_ref": "DESIGN.md §6 C40",
        "level_note": "Trusted: Lean kernel; axioms propext/Classical.choice/Quot.sound; the hand-written model of the writers (validated by the correspondence runs only); the two reference readers as the meaning of RFC 4180 / RFC 8259; harness generators. The theorems hold for the writers since /repo fix commit 18209de (findings C40-F1..F5, status fixed, witnesses replayed from corpus/C40); the pre-fix writers are refuted by five kernel-checked witnesses.",
        "technique": "Lean 4 proof over executable model + differential correspondence with the Rust code",
    },
}
