_Q = {"sizes": "tiny,small,small,small,mid"}
_T = {"sizes": "tiny,small,small,mid,mid,big,huge"}
ENTRY = {
    "level": "proof",
    "families": [fam("C21", 500, 20000, opts={"quick": _Q, "thorough": _T})],
    "gen_items": [],
    "rule": "draft",
    "trusted_base": COMMON_TB,
    "assumptions": [],
    "min_tags": {},
    "manifest": {
        "category": "proof",
        "text": "draft",
        "design_ref": "DESIGN.md §6 C21",
        "level_note": "draft",
        "technique": "Lean 4 proof over executable model + differential correspondence with the Rust engine on generated SQL",
    },
}
