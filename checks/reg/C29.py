ENTRY = {
    "level": "other",
    "families": [fam("C29", 400, 4000)],
    "gen_items": [],
    "rule": "every statement runs in a child process of the harness (catch_unwind + panic hook with the innermost engine frame; parent sees abort "
            "signals/stack overflows; limit = 10 s of child CPU time per statement, 120 s wall backstop; 6 GB address-space cap; RAYON_NUM_THREADS=4); "
            "streams per 20 cases: 3 utf8 (string functions drawn from the ENGINE'S function table - names read from /repo/src/planner/{binder,logical_expr}.rs on every run - LIKE, ||, CAST, comparisons, SUBSTRING/POSITION/TRIM, GROUP BY and joins over the multi-byte fixture table mb: 2-, 3-, 4-byte characters, combining marks, ZWJ sequence, lone ß, empty string x integers 0..6 and -1/7/8/100), 5 grammar (type-blind SQL grammar over 5 small tables: all expression forms, ~330 function names with random arity, "
            "joins, GROUP BY/ROLLUP/CUBE, windows, set ops, CTEs, VALUES, subqueries, LIMIT/OFFSET extremes), 2 wild (30% unknown/quoted/odd names), "
            "1 tame (supported core of the dialect, mostly executable: joins, aggregates, windows, set operations, subqueries, ~45 functions), 2 mutated (byte/token mutations of generated statements, lossy UTF-8), 1 stmt (90 templates: every statement kind, comments, empty, multi-statement), "
            "1 fnb (functions/operators at argument boundaries), 1 bytes (random bytes), 2 deep (31 nesting/size shapes: parentheses and subqueries up to and past the "
            "parser's recursion limit, AND/OR/+ chains up to 10 000 terms, 10 000-element IN lists, 5 000-digit and megabyte literals, 3 000 select items, 1 000 UNION branches, "
            "40-way joins, 300 chained CTEs, 20 ROLLUP keys), 1 spill-grammar + 2 spill (sort/top-k/aggregate/distinct/join/window shapes over 40 000 nullable rows under "
            "ExecutionContext::with_memory_limit(100_000)); every 40th case: optimizer fix-point driver vs its Lean model with scripted rules (converging, never converging, failing, "
            "a rule named PackedJoinKeys). PLUS, on every run irrespective of the case count, the systematic block utf8-sys: every name of the engine's function table x 8 argument shapes over the columns of mb (~2 400 statements, all words x n = 0..6 per statement). About a third of the string literals of the other streams are multi-byte too. non-trivial = the statement got past the parser (or an optimizer run with more applications than rules); distinct by sha256 of the case",
    "trusted_base": COMMON_TB + [
        "PARTIAL by nature: panic-, stack- and hang-freedom of the ~70k unmodelled lines (sqlparser, binder, physical planner, operators, Arrow) is decided by the generated-SQL runs only",
        "modelled not verified: optimizer fix-point driver (IQE.Engine.OptDriver mirrors optimize_with_rules; rule bodies are parameters); Spec.eval / Engine.Filter.eval / Spec.run as written by their owners",
        "child-process supervision: /proc/<pid>/stat CPU accounting, RLIMIT_AS, signal of the exit status, Rust's stack-overflow handler message",
        "termination proofs accepted by Lean as the finding channel: eval/evalList/evalCase/evalCoalesce, run/runList/runDefs, typeOf* (structural, nested inductive), likeMatch (well-founded on |pattern|+|string|), OptDriver.iterate/pass/finals (structural), passF/iterateF/finalsF (fuel)",
    ],
    "assumptions": [
        "time limit: 10 s of CPU per statement (30 s on the 40 000-row spill setting) on statements that are cheap by construction (tables of <= 60 rows outside the stand-alone 2 500/40 000-row tables; derived tables capped by LIMIT 20; CUBE <= 8 keys); a statement legitimately needing more is not generated",
        "spilled ORDER BY uses plain column keys only (the spilled merge re-evaluates key expressions per comparison: 38 s for 20 000 rows, slow but finite - not judged here)",
        "dev profile (overflow checks on), the same profile as the shipped target/debug binary; overflow panics listed as C29-F6/F8 wrap silently in release builds",
        "SQL text is valid UTF-8 (ExecutionContext::sql takes &str): arbitrary bytes are mapped through from_utf8_lossy",
    ],
    "min_tags": {"stream:grammar": 1, "stream:wild": 1, "stream:mutated": 1, "stream:tame": 1, "stream:utf8": 20, "stream:utf8-sys": 1500, "utf8": 1600, "stream:stmt": 1, "stream:deep": 1, "stream:spill": 1, "stream:fnb": 1, "stream:bytes": 1,
                 "stream:opt": 1, "outcome:ok": 1, "outcome:err": 1, "err:Parse": 1, "err:NotImplemented": 1},
    "explanation": "K = every statement ended in ok|err with no panic on any thread (and, for optimizer cases, model = real driver: same plan/failing rule and same number of rule applications); "
                   "O = the same predicate on the child's report (for optimizer cases: applications <= max_iterations*|loop rules|+|final rules|). Attribution to a listed finding is by crash-site + statement-shape signature "
                   "(Driver.C29.attributeTo), with the no-memory-limit re-run as neutraliser for C29-F1.",
    "manifest": {
        "category": "other",
        "text": "Partial proof + search. Proved in Lean: the modelled evaluators (Spec.eval, Engine.Filter.eval, Spec.run) are total with explicit failure; a typing judgment Spec.typeOf with progress "
                "(a typed expression on conforming rows never raises a type error or an out-of-range reference) and preservation (its value is NULL or of the synthesised type) by mutual structural induction; "
                "the optimizer fix-point driver performs <= max_iterations x |loop rules| + |final rules| rule applications for every rule set, and the fuelled driver with that budget computes the same result. "
                "Searched, not proved: crash/hang freedom of the real engine on grammar-generated, boundary and mutated SQL, each statement in a supervised child process.",
        "design_ref": "DESIGN.md §6 C29, §7",
        "level_note": "Level 'other': the property quantifies over all SQL text and is about code that cannot be modelled (parser, binder recursion, operators, Arrow). The theorems cover only the modelled layers; "
                      "the unmodelled 70k lines are covered by the supporting search alone (400 statements quick / 20 000 thorough per seed), reported as search. Eleven crash/hang defects found on the unchanged tree are listed as known findings "
                      "C29-F1..F11 with exact witness statements. Trusted: Lean kernel; propext/Classical.choice/Quot.sound; the hand-written models; the child-process supervisor; the generators.",
        "technique": "Lean 4 proofs over the reference/engine evaluator models and the optimizer driver model + supervised child-process search with generated SQL",
    },
}
