ENTRY = {
    "level": "proof",
    "families": [fam("C07", 60, 1500)],
    "gen_items": [],
    "rule": "cases rotate 20% scan (ids 0..n, n in {0,1,500,998..1002,1500,2048,4000} cut into 1..33 even or random batches, planned with "
            "RAYON_NUM_THREADS in {1,2,3,4,8,16}), 10% tracker (FULL join, forced fetch_add order through the hook), 20% ojoin (LEFT/RIGHT/FULL join of (id,k) tables, one side >=1000 rows in 2..16 batches, key domains "
            "3..400 with 10% NULL keys, either side preserved, every declared partition executed concurrently x3 + ctx.sql), 20% aggcut (hand-written aggregate statements - a single scalar MIN/MAX, global MIN/MAX/COUNT/SUM/AVG, GROUP BY + COUNT(DISTINCT) - over one table of "
            "24..120 rows whose BIGINT / DATE / DOUBLE / VARCHAR columns carry NULL runs at the start and/or end, as one batch and re-cut into 1,2,3,5,6,7,10,12 batches, "
            "under the 1-thread and the 4-thread child), 30% sql (sqlgen statements "
            "over catalogs whose table 0 has >=1000 rows in >=2 batches; strata filter/join/agg/distinct/setop/sort_limit/cte/subquery; each under layouts "
            "single-batch / generated batches / re-cut into k in {2,3,7,16,40} batches x five child processes (rayon threads, tokio workers) = "
            "(1,1),(2,4),(3,2),(8,4),(16,8) [(4,4) serves scan/ojoin/tracker/aggcut], plus the union of the individually executed declared partitions of ctx.physical_plan); "
            "non-trivial = scan with >=1000 rows and >=2 declared partitions, ojoin with >=2 declared partitions and an unmatched preserved row, "
            "sql with >=2 answering configurations, a table that reaches the multi-partition rule (or the aggcut stratum) and a non-empty result; distinct by sha256 of the canonical case",
    "trusted_base": COMMON_TB + [
        "modelled not verified: MemoryTableExec partition split, LimitExec unfold loop, UnionExec pair walk, check_partition, the publish / fetch_add / "
        "last-finisher protocol of HashJoinExec (IQE.Engine.Partition, IQE.Engine.Tracker)",
        "tracker theorems assume sequential consistency per atomic location (the C11 release-sequence argument for the Relaxed stores is given in prose only)",
        "tokio and rayon runtimes (exercised by the correspondence runs only)",
        "harness/src/sqlgen (statement generator, SQL printer, Arrow->value canonicalisation) and IQE.Spec.sameAnswer",
    ],
    "assumptions": [
        "statements whose single-batch single-thread run fails or returns more than 1500 rows are not used for the configuration comparison",
        "sequential consistency per atomic location in C07_tracker*",
        "every scan is planned with at least one rayon thread (C07_declared_partitions, C07_mod_partition_gate)",
    ],
    "min_tags": {"scan:multi": 1, "scan:single": 1, "ojoin:multi": 1, "sql:multi": 1, "sql:plain": 1, "s:aggcut": 1, "aggcut:global": 1, "tracker:hook": 1},
    "manifest": {
        "category": "proof",
        "text": "Lean theorems, for all batch lists / layouts / partition counts / interleavings: MemoryTableExec's i % n split covers every batch exactly once "
                "(incl. the 1000-row gate); per-row operators, the inner hash join and partial aggregation (any lawful accumulator; COUNT/SUM/MIN/MAX instance) give "
                "Perm-equal output for any two layouts of the same rows; LimitExec is a global OFFSET/LIMIT over its input partitions opened in order until satisfied; "
                "UnionExec visits every (input, partition) pair exactly once; the shared match tracker of HashJoinExec emits the unmatched build rows exactly once, "
                "only after every probe partition published, and exactly the rows matched by none — by induction over a small-step relation for any number of "
                "partitions and every interleaving, with termination; every declared partition of a plan of the modelled operator algebra is accepted by "
                "check_partition and their union is a correct answer. Tied to the code by correspondence (scan split and outer-join partitions against the models) "
                "and by configuration-invariance runs of generated SQL across batch layouts, thread counts and per-partition execution. "
                "Partial: the tokio/rayon runtimes and weak-memory behaviour are only exercised, not proved.",
        "design_ref": "DESIGN.md §6 C07",
        "level_note": "Trusted: Lean kernel; axioms propext/Classical.choice/Quot.sound; hand-written models of scan.rs / limit.rs / union.rs / plan.rs / the hash_join.rs tracker "
                      "(validated by correspondence only); sequential consistency per atomic location; sqlgen + Spec.sameAnswer; the harness. "
                      "Findings C07-F1 (callers that executed partition 0 only, b96001d) and C07-F2 (= C21-F8, 16c594a) were repaired in /repo; their witnesses are replayed first on every run.",
        "technique": "Lean 4 proof (induction over layouts and over a small-step interleaving semantics) + differential correspondence and metamorphic configuration-invariance runs on the Rust engine",
    },
}
