ENTRY = {
    "level": "proof",
    "families": [fam("C38", 3000, 150000)],
    "gen_items": [],
    "rule": "cases: distance_column (60%) and distance_columns (40%) x {l2, cosine, cosine_similarity, dot} on FixedSizeList columns of dimension 1..1024 "
            "(1, <8, 8, 9..15, 16, around multiples of 8, 64..127, 128/256/384/512/768/1023/1024, uniform), 0..8 rows, half of them slices at a non-zero row offset "
            "of a longer array, NULL rows none/sparse/half (the floats under a NULL row are kept), zero vectors 10%; 80% exact stream (integer components in "
            "[-8,8], Float32 or Float64 elements: every f32 product and lane sum is exact, so the result must equal the integer model bit for bit after the same "
            "f64 sqrt/div), 20% random-float stream (f32 in [-1,1] or [-50,50]; judged against the formula evaluated in f64 with tolerance 1e-3*max(1, sum|a_i b_i|) "
            "for dot, 1e-3*max(1,value) for l2, 1e-3 for cosine — reported under tag random-float); malformed stream: dimension mismatch (query / right column), "
            "non-list column, Int32 elements, Float64 right column, unequal row counts. Non-trivial = a value array returned, >= 1 row, dimension >= 2",
    "trusted_base": COMMON_TB + [
        "modelled not verified: the loops of physical/vector.rs (IQE.Engine.VecDist); FixedSizeListArray::values()/slice/is_null as a flat row-major buffer",
        "IEEE-754 rounding is NOT modelled: theorems are over exact integer arithmetic; the driver applies Lean's Float sqrt/mul/div/sub (C doubles) to the model's "
        "exact ingredients in the order the code does",
    ],
    "assumptions": [
        "exact stream: components are integers in [-8,8] and dimension <= 1024, so no f32 lane accumulator exceeds 2^24 (exactness of the code's f32 arithmetic)",
        "float tolerance of the property is taken as 1e-3 scaled as stated in `rule` (f32 accumulation error grows with the dimension)",
        "distance_columns on columns of different row counts returns min(len) rows (modelled as coded; cannot arise inside one RecordBatch)",
    ],
    "min_tags": {"column": 1, "columns": 1, "l2": 1, "cosine": 1, "cosine_similarity": 1, "dot": 1, "sliced": 1, "null-rows": 1, "zero-norm": 1,
                 "dim<8": 1, "dim%8=0": 1, "dim-chunks+rem": 1, "err-dim": 1, "err-notvec": 1, "err-notfloat": 1, "random-float": 1, "exact-int": 1, "elem-f64": 1},
    "manifest": {
        "category": "proof",
        "text": "Lean theorems over the executable model of physical/vector.rs in exact integer arithmetic: the 8-lane chunks_exact accumulation plus remainder of "
                "dot and l2_sq equals the plain sum for EVERY dimension (index-coverage lemma for chunks_exact general in element type, chunk size and length; "
                "regrouping for any lane count and term); a dimension mismatch is an error; a row is NULL iff its vector is NULL; cosine similarity is 0 exactly "
                "when a vector is all zeros; distances of a sliced column are the slice of the distances. Tied to the code by correspondence on integer-valued "
                "Float32/Float64 vectors (bit-for-bit) and on random floats (tolerance). Rounding is out of scope (partial with respect to 'within float tolerance').",
        "design_ref": "DESIGN.md §6 C38",
        "level_note": "Trusted: Lean kernel; axioms propext/Classical.choice/Quot.sound; the hand-written model of the kernels (validated by the correspondence runs "
                      "only); Lean Float = IEEE double for sqrt/mul/div in the driver; harness generators. Float rounding error bounds are sampled, not proved.",
        "technique": "Lean 4 proof over executable model + differential correspondence with the Rust code",
    },
}
