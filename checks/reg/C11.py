ENTRY = {
    "level": "proof",
    "families": [fam("C11", 500, 40000)],
    "gen_items": ["target_split_bytes", "MIN_SPLIT_BYTES", "MAX_SPLIT_BYTES", "SPLITS_PER_NODE",
                  "cut_pieces", "cut_base", "cut_remainder", "cut_piece_rows", "cut_piece_bytes"],
    "rule": "cases: 80% table layouts written as REAL Parquet files under $IQE_SCRATCH (0..6 files; 0..7 row groups per file with 0,1,2,..3000 rows incl. EMPTY row groups; "
            "string padding 0/8/64/700 bytes so byte sizes vary by 100x; file names from a pool incl. non-ASCII, prefixes of each other, upper/lower case), node counts 0..64; "
            "every layout is enumerated under 3..5 views = permutations of the file list with every file hard-linked under a different, differently-sorting directory; "
            "of these 10% have DUPLICATE file names (finding C11-F1) and 10% contain an unreadable footer; the footers (num_rows, total_byte_size) the model and oracle use are read back "
            "by the harness with the parquet crate, not through the engine; 20% points of target_split_bytes (boundaries 0, 32, 4MiB+-1, 64MiB+-1, 2^40, u64::MAX; nodes 0..65, 2^20, 2^59-1; the un-clamped band). "
            "K = the whole SplitSet (every split field, totals, target) and the digest equal the model's (model runs with the open finding's switch on = the code as it is), error kinds equal. "
            "O on the implementation's output: totals = sums over non-empty row groups, split bytes/rows sum to them, every non-empty row group covered exactly once by contiguous ranges "
            "with n >= 1 and exact bytes, no split for empty/unknown row groups, canonical order, identical result (splits AND digest) in every view, different split lists never share a digest, "
            "1 <= target, floor <= target <= max(MAX, floor). non-trivial = >= 2 splits and >= 2 views (target points: total, nodes >= 1); distinct by sha256 of the canonical case",
    "trusted_base": COMMON_TB + [
        "modelled not verified: the loop structure of enumerate_parquet (IQE.Engine.SplitEnum) and SplitSet::digest (IQE.Engine.Fnv); the arithmetic expressions are regenerated from source (IQE.Gen.Splits) and proved equal to the model",
        "parquet crate footer reader (harness reads num_rows/total_byte_size back with it) and the engine's metadata cache returning the file's footer",
        "file_key = final path component (harness builds every path as <dir>/<name>); str ordering bytewise",
    ],
    "assumptions": [
        "row-group byte sizes near 2^40 cannot be produced by small real files: that end of the quantifier is carried by the theorems (unbounded) and the translator tie only",
        "u64 overflow of total_bytes / i64 of total_rows while summing footers is not modelled (needs > 2^63 bytes of footers)",
        "node counts >= 2^59 (32*nodes overflows u64) are outside the property's 1..64 and not generated",
    ],
    "min_tags": {"enum": 300, "target": 60, "cut": 100, "zero-row-group": 30, "multi-file": 100, "multi-row-group": 100, "dup-names": 15, "bad-footer": 10,
                 "no-files": 5, "nodes0": 10, "target-ideal": 5, "target-floor": 15, "target-max": 5},
    "manifest": {
        "category": "proof",
        "text": "Lean theorems over the executable model of enumerate_parquet, for every row-group inventory, byte size, target and node count (induction over the cutting loop): each non-empty row group "
                "is cut into >= 1 contiguous ranges with n >= 1 covering it exactly once, bytes sum exactly (saturating_sub never saturates, u128 product in range), set totals = sums over non-empty row groups, "
                "result in canonical order and independent of file order when file names are pairwise distinct (mount paths never enter: only the file name is modelled). target_split_bytes and the "
                "pieces/base/remainder/bytes expressions are regenerated from the Rust source on every run and proved equal to the model and panic-free/in-range. Digest: function of (table, split list); "
                "PARTIAL sensitivity (FNV step bijective, one changed byte or two adjacent changed bytes always change the digest; the unrestricted claim is impossible for 64 bits). "
                "The unchanged tree VIOLATES order-independence for duplicate file names (kernel-checked witness, known finding C11-F1, reproduced on real files every run).",
        "design_ref": "DESIGN.md §6 C11",
        "level_note": "Trusted: Lean kernel; axioms propext/Classical.choice/Quot.sound; translator (Rust expr -> Lean); hand model of the loops (validated by correspondence on real Parquet files); parquet crate; harness generators. "
                      "Partial: digest sensitivity (see text). Known finding C11-F1 open (a 'refuse duplicate file names' patch was declined: it would remove working behaviour for Iceberg-style layouts).",
        "technique": "Lean 4 proof over executable model + translator-regenerated arithmetic + differential correspondence with the Rust code on real Parquet files",
    },
}
