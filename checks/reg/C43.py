ENTRY = {
    "level": "proof",
    "families": [fam("C43", 500, 5000)],
    "gen_items": [],
    "rule": "family C43, 4 of 5 cases kind sql: one vector table vt(id BIGINT unique, g BIGINT in 0..3 or NULL, emb FixedSizeList<Float32,d>, optional second vector "
            "column e2 of another width), d in 1..16 (1,2,3,8,9,16 favoured), 0..40 rows (one table in 14 with 1000..1300 rows in 2..4 batches = several "
            "MemoryTableExec partitions), integer components in [-4,4] (every f32/f64 operation of the kernels is exact, distinct exact distances stay distinct as floats), "
            "rows drawn from a small pool (duplicates: ties under every metric), scaled copies (parallel vectors: cosine ties), zero vectors, NULL vectors 0/10/50 %; random batch cuts; "
            "statement from an AST owned by the generator, shape classes in rotation: canonical (x4), canonical+WHERE, canonical with renamed/swapped output names, wrong direction for the "
            "metric (x2), extra sort key before/after the distance (a key AFTER the distance only with l2 / dot, whose float values are exact; the cosine functions round, so mathematically tied parallel vectors may differ in the last bit), NULLS FIRST, no LIMIT / OFFSET only, LIMIT 0, distance in the SELECT list (computed projection), expression around the "
            "distance (-d, d+1, d*2), query vector of the wrong length, filter ABOVE the limit (outer query), filter in a derived table below the ORDER BY, ordinary top-n on a scalar column; "
            "all four functions (l2_distance, cosine_distance, cosine_similarity, dot_product), literal first or second, ARRAY[..] or [..], integer or decimal literals; "
            "k and OFFSET from {1,2,n-1,n,n+1,2n+3,n/2,random} x {absent,0,1,n-1,n,n+1,random}; session mode x provider in {Exact x MemoryTable (60 %), Exact x mock provider whose "
            "index returns a WRONG neighbour set, Exact x mock without index, Indexed x mock without index, Indexed x mock with the wrong index}. Each statement is answered by "
            "ExecutionContext::with_config(mode).sql and by the same public pipeline with VectorSearchPushdown removed from the rule list; the production fixpoint is replayed rule by rule "
            "and every application of VectorSearchPushdown is exported (plan before / after); on the plan the rule saw the driver also evaluates IQE.Engine.VectorSearch.meaning (the object of "
            "C43_canonical_shape) over the case's table and compares it with the statement's meaning computed from the AST, evaluates knnAnswer of every accepted spec against the meaning of the accepted node, "
            "and evaluates the theorem's hypotheses chainOk / noCiDup (tags meaning:agrees, knn_answer=meaning, hyp:chain_ok). 1 of 5 cases kind exec: VectorSearchExec::new over a fallback operator with 1..4 declared partitions x 0..3 "
            "batches x 0..4 rows, provider none / declining / index answer of 0..3 batches in four column layouts incl. a missing column and a drifted type, mode Exact / Indexed, "
            "k and skip from {0,1,m,m+1,usize::MAX,random}. Non-trivial: sql with >= 2 rows after WHERE and >= 1 row returned (or a dimension mismatch, or an index answer judged); "
            "exec with >= 2 fallback rows or the index path taken; distinct by sha256 of the canonical case",
    "trusted_base": COMMON_TB + [
        "modelled not verified: VectorSearchPushdown::try_match as IQE.Engine.VectorSearch.canonicalKnn over the EXPORTED plan (harness/src/planexport.rs renders the public LogicalPlan/Expr enums "
        "structurally; lean/Driver/PlanJson.lean decodes them); VectorSearchExec::{try_index, shape_output, execute} as IQE.Engine.VectorSearch.execute; the Limit-over-Sort lowering as "
        "IQE.Engine.SortLimit.orderLimit (C25's model)",
        "the exact order of the distance functions (IQE.Engine.VectorSearch.score): the SQL value is taken to be a strictly increasing function of the exact rational score; IEEE rounding of the "
        "kernels is NOT modelled (C38 is partial in the same way) — on the generated integer-valued vectors both orders coincide, which the correspondence run checks",
        "literal lists whose elements are Decimal128 are exported as an opaque literal (not generated: SQL numeric literals bind to Int64 / Float64)",
        "the mock TableProvider of the harness (delegates to MemoryTable, answers scan_knn with the first k rows in table order) stands for 'a provider with an approximate index'",
    ],
    "assumptions": [
        "the meaning theorem (C43_canonical_shape) resolves a column reference by its bare name and assumes names pairwise distinct ignoring ASCII case at every projection level of the chain "
        "(explicit, decidable hypothesis ChainOk); SELECT aliases that shadow the key's own vector column are not generated (ORDER BY f(emb, ..) then reads the alias: binder dialect, not C43)",
        "skip and the row count fit in usize (explicit hypotheses of C43_topk, inherited from C25)",
        "sort keys are f64-typed (NULL or a float): explicit hypothesis KeysTyped [.f64] of C43_topk",
        "a dimension mismatch must be an error naming the column; an empty result is tolerated when no row reaches the sort",
        "mode Indexed with an index answers by permission approximately: only row integrity (every returned row is a table row projected as the SELECT list says), the OFFSET/LIMIT "
        "mechanics (C43_index_window) and the correspondence with the model are judged there",
        "C43_canonical_shape is stated for `meaning`, which resolves a column reference by its bare name (first exact match) and evaluates pushed scan filters through a parameter `pred` "
        "(their semantics is C02's subject); the driver instantiates pred for the generated filter forms and checks meaning = statement meaning on every case inside the fragment",
    ],
    "min_tags": {"sql": 1, "exec": 1, "vs:fired": 1, "vs:absent": 1, "gate:accepted": 1, "gate:wrong_direction": 1, "gate:multi_key": 1, "gate:nulls_first": 1, "gate:no_fetch": 1,
                 "gate:fetch0": 1, "gate:not_distance": 1, "gate:chain": 1, "gate:dim_mismatch": 1, "err:dimension": 1, "fn:l2": 1, "fn:cos": 1, "fn:sim": 1, "fn:dot": 1,
                 "ties": 1, "tie_at_boundary": 1, "null_vectors": 1, "window_past_end": 1, "offset_past_end": 1, "multi_partition_scan": 1, "where": 1,
                 "path:exact": 1, "path:index": 1, "path:declined": 1, "path:fallback": 1, "fallback_parts>1": 1, "mode:exact": 1, "mode:indexed": 1,
                 "provider:wrongindex": 1, "meaning:agrees": 1, "knn_answer=meaning": 1, "hyp:chain_ok": 1, "shape:outer_filter": 1, "shape:derived_filter": 1, "shape:computed_proj": 1, "shape:wrapped": 1, "shape:canonical_alias": 1},
    "manifest": {
        "category": "proof",
        "text": "Lean theorems: (C43_topk) whenever the index is not used, the operator's output is C25's Limit(skip,k) over Sort instantiated with the distance key — ((sort rows).drop skip).take k "
                "for every cut of the scan into partitions and batches — and (C43_topk_exact_order) on the exact rational order of the four distance functions (proved a total preorder) any sorted "
                "order's window agrees with the model's position by position up to ties, the model's window being the declarative 'k nearest after the first skip' (IsWindow, no sort); "
                "(C43_canonical_shape) if the matcher canonicalKnn — the gates of VectorSearchPushdown::try_match in source order — accepts a plan, the plan's literal meaning (scan with pushed filter, "
                "column-only projections, sort by the distance, offset/limit) equals the k nearest rows of the extracted table / column / metric / prefilter / outputs, computed on the table; "
                "(C43_refuses_*, C43_walk_refuses_*) the matcher returns none for every refused shape class: no LIMIT, LIMIT 0, a filter above the limit, extra sort keys, NULLS FIRST, wrong direction "
                "for the metric, an expression around the distance, no constant vector, anything but column projections between sort and scan, computed projections, dimension mismatch; "
                "(C43_no_index_exact) in the model of VectorSearchExec, mode Exact / no provider / a declining provider / skip+k overflow execute the fallback plan, every declared partition in order, "
                "and mode Exact never consults the provider (the outcome is independent of it); C43_partition0_only_loses_rows is the kernel-checked witness of the defect repaired by /repo b96001d; "
                "(C43_index_window) shape_output emits rows skip..skip+k of the provider's answer for every batching. Tied to the code by correspondence: every application of the rule inside the "
                "production fixpoint is compared with the matcher's prediction on the exported plan; answers with and without the rule are judged against the statement's exact meaning up to ties.",
        "design_ref": "DESIGN.md §6 C43",
        "level_note": "Trusted: Lean kernel; axioms propext/Classical.choice/Quot.sound; the hand-written models of the matcher and the operator and the plan exporter/decoder (validated by the "
                      "correspondence runs only); exact-vs-float order of the distance kernels (sampled on integer-valued vectors, not proved); the reference semantics; harness generators and mocks. "
                      "Finding C43-F1 (a C03 defect found by this family: PredicatePushdown pushed a filter through LIMIT) is fixed in /repo by 858a9cb, its witness is replayed from the corpus. "
                      "Finding C43-F2 (mode Indexed only: shape_output looked provider columns up by the query's output names — aliases failed or swapped columns) is fixed in /repo by 162db10 "
                      "(witness in the corpus; the driver still recognises exactly that lookup as deviation matchByOutputName should it return); mode Indexed with an index is judged for row "
                      "integrity and OFFSET/LIMIT mechanics, not for nearness.",
        "technique": "Lean 4 proof over executable models + plan-export correspondence + differential execution with the rule removed + exact-arithmetic SQL oracle",
    },
}
