_Q = {"strata": "cte", "allow": "cte_shadow,dup_derived_names", "deny": "cross_join", "joins": "1"}
_M = {"strata": "cte", "nojoin": "1", "multi": "1", "cfgs": "memb", "max_rows": "2500"}
ENTRY = {
    "level": "proof",
    "families": [fam("SQLC28", 260, 2600, opts={"quick": _Q, "thorough": dict(_Q, joins="2")}),
                 fam("SQLC28", 16, 160, opts={"quick": _M, "thorough": _M})],
    "gen_items": [],
    "rule": "generated statements WITH w0 [, w1 [, w2]] AS (filter / join / aggregate blocks; a definition may read its earlier siblings) SELECT ... whose FROM items are "
            "drawn mostly from the CTEs (each referenced 0-4 times, also twice in one FROM), half of them with a nested WITH that re-uses the last outer name inside a derived "
            "table (every second one spelled with the outer definition's column names, as in A.16); every third statement with one more WHERE conjunct that reads a CTE inside a subquery expression ([NOT] EXISTS / scalar COUNT(*) comparison); a "
            "second stream over a table of 1000-2200 rows in several batches (multi-partition CTE bodies); run through ExecutionContext::sql over single- and multi-batch memory "
            "tables. Oracle = Spec.acceptable on the engine's rows; additionally an engine ERROR on the WITH statement is a failure when the engine answers the CTE-free rendering "
            "of the same statement correctly. K also demands Spec.run(inlined statement) = Spec.run(plan) on every case. Non-trivial = engine answered and the reference answer is "
            "non-empty; distinct by sha256 of the canonical case; results above 3000 rows are not generated",
    "trusted_base": COMMON_TB + ["modelled not verified: binder name map with save / restore around a WITH scope (bind_query / bind_ctes / bind_table_factor) = IQE.Engine.Cte.bindE with the switches off = bindL; "
                                 "the pre-91e8987 behaviour (global map, cache keyed on the name, materialised candidate a parameter) is kept as the deviation the witness theorems are about",
                                 "SQL reference semantics IQE.Spec (ours); SQL text <-> resolved plan <-> named statement correspondence is the generator's (harness/src/sqlgen, `names` in the plan JSON), "
                                 "checked per case: lexPlan of the rebuilt named statement must print like the plan",
                                 "text-level renderings used only for attribution (harness/src/fam_sqlc28.rs: CTE-free `inline_sql`, column-renaming `neutral_sql`)"],
    "assumptions": ["CTE definitions are uncorrelated (the generator never puts a WITH inside a correlated subquery)",
                    "no CROSS JOIN outside the shadow block, at most one JOIN per FROM in the quick tier (result sizes)",
                    "auxiliary operator defects (C21 / C22 / C23 findings) are attributed to C28-F3 only when the engine returns the same rows for the CTE-free rendering"],
    "min_tags": {"ref_in_subquery": 20, "names:shadowed": 20, "names:unique": 20, "share:2": 10, "f:shadow_same_columns": 10, "f:dup_derived_names": 3, "inline:agree": 100},
    "manifest": {
        "category": "proof",
        "text": "Lean theorems. Reference semantics (Spec.run, all plans / catalogs / stacks / environments): WITH runs its body over the stack extended by exactly one table per definition, "
                "the i-th being the i-th definition's value over the enclosing stack plus earlier siblings, and a reference anywhere in the body yields exactly that table (C28_ref_is_def, C28_ref_body); "
                "an inner WITH only extends the stack and the extension ends with its scope - the sibling input of a join / set operation runs over the outer stack (C28_lexical_scope); "
                "materialising the definitions once = replacing every reference (body, later definitions, subquery expressions) by a copy of its definition, for every operator shape "
                "(C28_materialize_eq_inline_partial: definitions and body contain no further WITH, definitions evaluate in every environment). Name resolution (Engine.Cte, named statements): with both "
                "deviation switches off the model is lexical resolution (C28_model_refines); if no name is defined twice and every reference is bound, the model of the tree before /repo 91e8987 - one global "
                "never-restored name map, one materialisation per name, whichever candidate - executes exactly the lexically resolved statement (C28_unique_names, induction over the statement with "
                "frame / agreement invariants); kernel-checked negation witnesses for re-used names: A.16 gives (1,1) instead of (1,2) through the name-keyed cache, (5,2) instead of (5,1) through the "
                "never-restored map alone (C28_shadowing_violates). Tie: generated WITH statements through ExecutionContext::sql judged by Spec.acceptable; failing cases attributed only as DESIGN 3.4 prescribes.",
        "design_ref": "DESIGN.md §6 C28, Appendix A.2 / A.16 / A.27",
        "level_note": "Trusted: Lean kernel; propext/Classical.choice/Quot.sound; reference semantics IQE.Spec; the generator's printer / serializer pair; the model of binder map + name-keyed cache. "
                      "PARTIAL: materialise = inline is proved for WITH-free definitions and bodies only (nested WITH: sampled by the per-case K check `inline:agree`, which covers the shadow statements). "
                      "C28-F1 (re-used names: global never-restored name map + cache keyed on the name; A.16) was repaired by /repo 91e8987 (proposed_fixes/C28-cte-scope.patch); its witnesses are replayed "
                      "from corpus/C28 on every run and a recurrence is reported as a violation (the attribution is no longer consulted). Current tree: violated - "
                      "C28-F2 (equally named columns of two derived relations in one FROM, e.g. a CTE joined with itself: second relation's columns read the first's), C28-F3 (operator defects inherited "
                      "from C21/C22/C23). A.2 (partition-0-only materialisation) was repaired by /repo b96001d; its witness is replayed from corpus/C28 on every run.",
        "technique": "Lean 4 proof over reference semantics + executable model of name resolution; differential correspondence with the Rust engine on generated SQL",
    },
}
