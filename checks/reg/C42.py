ENTRY = {
    "level": "proof",
    "families": [fam("C42", 6000, 300000)],
    "gen_items": ["workers_for"],
    "rule": "cases: 40% rendered cpulists of random sets (random range grouping, order, duplicates, ASCII whitespace, '+', leading zeros), "
            "40% junk token strings (overflowing numbers, reversed ranges, Unicode whitespace/digits), 20% workers_for points incl. 0 and usize::MAX; "
            "non-trivial = cpulist whose output has >= 2 ids, or workers_for with work,pool >= 1; distinct by sha256 of the canonical case",
    "trusted_base": COMMON_TB + ["modelled not verified: parse_cpulist loop (IQE.Engine.CpuList); Rust str::trim/split/split_once/parse::<usize> semantics as written in IQE.Core.Text"],
    "assumptions": ["ranges whose upper end is huge are not generated (the real code would allocate without bound; outside this property)"],
    "min_tags": {"rendered": 1, "junk": 1, "workers": 1},
    "manifest": {
        "category": "proof",
        "text": "Lean theorems, for every input string: the output of the parse_cpulist model is strictly sorted and is exactly the set denoted by the ranges/singletons of ANY rendering (any grouping, order, duplicates, Unicode whitespace, '+', leading zeros; junk parts contribute nothing; every string is covered by some rendering: C42_denotes, C42_canonical, C42_junk_ignored, C42_every_input_rendered); workers_for bounds proved over the definition regenerated from the Rust source on every run (translator), incl. that clamp cannot panic. The model is tied to the code by correspondence on generated cpulists and junk strings.",
        "design_ref": "DESIGN.md §6 C42",
        "level_note": "Trusted: Lean kernel; axioms propext/Classical.choice/Quot.sound; the hand-written model of parse_cpulist and of Rust's trim/split/parse (validated by the correspondence runs only); harness generators.",
        "technique": "Lean 4 proof over executable model + differential correspondence with the Rust code",
    },
}
