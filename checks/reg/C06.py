ENTRY = {
    "level": "proof",
    "families": [fam("C06", 1500, 60000)],
    "gen_items": ["Cmp", "Cmp::apply", "CHUNK", "MAX_REGS"],
    "rule": "each case = one predicate x one batch of N rows repeating a pattern of 1/3/7/13 random rows (period coprime to the 8-bit packing and the "
            "1024-row chunk); N mostly 1..40, 10% from {0,1,1023,1024,1025,2048,2049,3000}, 10% around byte boundaries (7..65); column domains: two Float64 "
            "columns over NaN (both signs, a signalling payload), +-0.0, +-inf, subnormal, f64::MAX, 2^53+1, +-0.5, 1.0; two tame Float64 columns (arithmetic "
            "operands), Int64 incl. i64::MIN/MAX and 2^53+1, Int32 incl. extremes, Date32, Utf8; NULL density 0 (no validity buffer) / 10 / 30 / 60 %; predicates: "
            "same-type comparisons (f64 / i64 / i32 with Int32 literals / date), f64 arithmetic inside comparisons, AND/OR/NOT/[NOT] BETWEEN to depth 5, AND/OR "
            "chains of 11..14 comparisons (23 M-registers compile, 25 exceed MAX_REGS), and shapes the compiler must decline (mixed Int64/Float64, Int32 vs Int64 "
            "literal, strings, IS NULL, IN, bare column); observed: CompiledPredicate::compile + evaluate, evaluate_expr, PredicateEvaluator in-process and in a child "
            "process with QE_COMPILE=0; non-trivial = the predicate compiled and N > 0; distinct by sha256 of the canonical case",
    "trusted_base": COMMON_TB + [
        "modelled not verified: Compiler::{num_f64, side, boolean}, CompiledPredicate::evaluate / eval_chunk (IQE.Engine.Compiled); the interpreter model IQE.Engine.Filter",
        "translated (re-generated each run): Cmp, Cmp::apply, CHUNK, MAX_REGS (IQE.Gen.Compiled) with the Rs.Cmp instances of IQE.Core.Rs (Int: mathematical order; F64: IEEE)",
        "u8 0/1 slabs and & | 1-x are modelled as Bool && || !; values under NULL slots are read as 0 (masked by validity in model and code)",
    ],
    "assumptions": [
        "batches have the schema's column types (the per-batch type re-check of evaluate() is not exercised); Alias and no-op Cast(Float64) wrappers are not generated",
        "float arithmetic operands are finite dyadic values (results exact, no NaN produced by arithmetic); special values occur in direct comparison leaves",
    ],
    "min_tags": {"compiled": 1, "declined": 1, "len0": 1, "len-multiple": 1, "len-remainder": 1, "len-short": 1, "special-floats": 1, "nulls": 1,
                 "and": 1, "or": 1, "not": 1, "between": 1, "arith": 1, "i32lit": 1, "datelit": 1, "outside-subset": 1, "ieee-visible": 1},
    "manifest": {
        "category": "proof",
        "text": "Lean theorems over the executable model of the predicate compiler and of CompiledPredicate::evaluate, stated with the TRANSLATED Cmp::apply / CHUNK / MAX_REGS: "
                "whenever compile accepts a predicate, mask and validity equal the interpreter model's for every batch length (chunk/remainder bit packing proved a round trip for all "
                "lengths), every NULL pattern and every float-arithmetic instance (C06_compile_correct); destination registers are fresh and below MAX_REGS (C06_regs_ssa); interpreter "
                "NULL <=> some referenced column NULL (C06_null_strict_validity); IEEE comparison = total order exactly off NaN / two zeros, with kernel-checked witnesses for the "
                "f64 deviation the tree had before fix 7400978. Tied to the code by correspondence incl. a QE_COMPILE=0 child process.",
        "design_ref": "DESIGN.md §6 C06",
        "level_note": "Trusted: Lean kernel; axioms propext/Classical.choice/Quot.sound; hand-written models of the compiler, eval_chunk and the interpreter (validated by correspondence "
                      "only); translator for the four generated items; harness generators. Finding C06-F1 (IEEE f64 comparison) was repaired in /repo by fix 7400978; its witnesses are replayed from corpus/C06 on every run.",
        "technique": "Lean 4 proof over executable model + translated definitions + differential correspondence with the Rust code",
    },
}
