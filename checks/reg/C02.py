ENTRY = {
    "level": "proof",
    "families": [fam("C02", 4000, 260000)],
    "gen_items": [],
    "rule": "each case = one expression x one batch holding EVERY combination of the referenced columns' small domains (each domain contains NULL), "
            "so all NULL/non-NULL operand patterns of the expression are present; stream (a) exhaustive: all 1200 AND/OR/NOT trees of depth <= 2 over three "
            "comparison atoms (quick and thorough) and all 195312 trees of depth <= 3 over two atoms (thorough); stream (b) random typed trees of depth 0..4 over "
            "comparison with Int32/Int64/Float64 coercion, IS [NOT] NULL, IN-list (literal / column / NULL items, string fast path), [NOT] BETWEEN (NULL and column bounds), "
            "[NOT] LIKE (constant and column patterns, non-ASCII), CASE, COALESCE, NULLIF, + - *, unary minus, ||; one in eight random cases projects a scalar; "
            "observed through evaluate_expr, arrow filter on its mask, and PredicateEvaluator (compiled program when the predicate compiles); "
            "non-trivial = some row holds a NULL and the SQL value of the expression is not the same on all rows; distinct by sha256 of the canonical case",
    "trusted_base": COMMON_TB + [
        "modelled not verified: evaluate_expr_internal's dispatch (IQE.Engine.Filter); Arrow kernels cmp::*, boolean::{and,or,not}, is_null, zip, filter, numeric::* as the "
        "element-wise functions of IQE.Core.Val (validated by the correspondence runs only)",
        "LIKE: like_match / classify_like are taken as the kernel Spec.likeMatch (correspondence only, patterns from a fixed list)",
        "the reference semantics IQE.Spec.eval (Kleene connectives, NULL-propagating comparison, Arrow total order on floats)",
    ],
    "assumptions": [
        "type-correct expressions only (the generator is typed); no CAST, no scalar functions besides COALESCE/NULLIF, no subquery expressions, no integer division/modulo, no NaN / -0.0 data (C06 owns those)",
        "a NULL literal is never generated as a CASE THEN branch, as a boolean operand, or against DATE/BOOLEAN (the engine refuses those with a cast / coercion error - an error, not a wrong answer)",
        "errors: the engine evaluates every CASE/COALESCE branch for the whole batch, so it may raise where SQL would not evaluate the branch; the theorems are stated for evaluations that raise no error and the generator produces none",
    ],
    "min_tags": {"and": 1, "or": 1, "not": 1, "inlist": 1, "between": 1, "like": 1, "case": 1, "coalesce": 1, "nullif": 1, "isnull": 1,
                 "compiled": 1, "interpreted": 1, "strict-visible": 1, "filter-visible": 1, "conjunctive": 1},
    "manifest": {
        "category": "proof",
        "text": "Lean theorems over the executable model of the expression interpreter (evaluate_expr): with the null-strict kernels replaced by Kleene logic the model "
                "equals the SQL reference semantics for every expression tree of the fragment and every row (C02_eval_refines, by induction on the nested expression type), a filter "
                "keeps exactly the rows where the predicate is TRUE, NULL appears exactly where SQL says; ConstantFolding's boolean rewrites preserve the SQL value; "
                "kernel-checked negation witnesses for the strict AND/OR/IN/BETWEEN the tree used before fix e4c7c04 and the exact syntactic class of predicates on which a filter cannot tell them apart. "
                "Tied to the code by correspondence on exhaustively enumerated connective trees x NULL patterns and random typed trees.",
        "design_ref": "DESIGN.md §6 C02",
        "level_note": "Trusted: Lean kernel; axioms propext/Classical.choice/Quot.sound; the hand-written model of evaluate_expr and of the Arrow kernels it calls (validated by "
                      "correspondence only); the LIKE matcher is not modelled (kernel = reference matcher); the reference semantics IQE.Spec.eval; harness generators. "
                      "Finding C02-F1 (null-strict AND/OR kernels) was repaired in /repo by fix e4c7c04; its witnesses are replayed from corpus/C02 on every run.",
        "technique": "Lean 4 proof over executable model + differential correspondence with the Rust code + SQL reference oracle",
    },
}
