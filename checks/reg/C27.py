_Q = {"prop": "C27", "strata": "gsets", "allow": "null_multi_key", "neutral": "1"}
ENTRY = {
    "level": "proof",
    "families": [fam("SQL", 300, 3000, driver="SQLC27", opts={"quick": _Q, "thorough": dict(_Q, sizes="tiny,small,mid")})],
    "gen_items": [],
    "rule": "generated statements SELECT <keys>, <1-3 aggregates>, GROUPING(<all keys>) FROM <table | derived table> [WHERE] GROUP BY ROLLUP / CUBE / GROUPING SETS over 1-3 "
            "grouping columns (a random non-empty selection of the output columns projected; explicit sets: 1-3 random subsets covering every key, duplicates and the empty set included) "
            "over tables whose key columns have NULL density 0/10/50/100 % (a real NULL key and a padded NULL differ only in the GROUPING column); run through ExecutionContext::sql "
            "over single- and multi-batch memory tables. Oracle = Spec.acceptable on the engine's rows. K also demands Spec.run(binder-shaped desugared plan) = Spec.run(plan) as bags on "
            "every case. Non-trivial = engine answered and the reference answer is non-empty; distinct by sha256 of the canonical case",
    "trusted_base": COMMON_TB + ["modelled not verified: binder desugaring bind_grouping_sets = IQE.Engine.GroupingSets (rollupSets / cubeSets / branch / desugar / desugarPlan)",
                                 "SQL reference semantics IQE.Spec (ours); SQL text <-> plan correspondence is the generator's (harness/src/sqlgen): it writes ROLLUP / CUBE in the text and the expanded sets in the plan"],
    "assumptions": ["BOOLEAN and DOUBLE columns are not used as grouping columns (the engine refuses BOOLEAN group keys; float grouping is engine-defined)",
                    "HAVING is not combined with grouping sets (the binder refuses it); every aggregate is projected",
                    "failures over tables with NULLs whose NULL-free variant passes are the NULL-key defects inherited from C21 (C27-F1)"],
    "min_tags": {"f:rollup": 20, "f:cube": 20, "f:grouping_sets": 20, "keys:2": 10, "keys:3": 5, "null_key_data": 20, "empty_set": 20, "desugar:agree": 100},
    "manifest": {
        "category": "proof",
        "text": "Lean theorems: ROLLUP(k0..kn-1) expands to exactly the n+1 prefixes and CUBE to exactly the 2^n ascending sub-lists of [0..n-1] - membership, count, no duplicates, each a "
                "duplicate-free set of valid key positions (C27_expand; the recursive cubeSets is tested equal to the binder's bit-mask loop for 0-3 columns); for duplicate-free sets of valid "
                "positions and inputs on which the key expressions evaluate, the node semantics Spec.aggregateSets equals the binder's desugaring - UNION ALL over the sets of one aggregate "
                "grouped by that set's keys only, projected with NULL padding and the per-branch GROUPING constant - for every input table (NULL keys included), aggregate list and list of sets "
                "(C27_desugar, C27_desugar_run; induction over the sets, groupBy under the injective padding of the group key); bit j (most significant first) of GROUPING(a0..am-1) in a "
                "branch is 1 iff aj is absent from the set, the node's mask is GROUPING(all keys) (C27_grouping_bits), and equal masks mean the same keys are present (C27_mask_determines_set). "
                "Tie: generated grouping-set statements through ExecutionContext::sql judged by Spec.acceptable.",
        "design_ref": "DESIGN.md §6 C27",
        "level_note": "Trusted: Lean kernel; propext/Classical.choice/Quot.sound; reference semantics IQE.Spec; generator's printer / serializer pair; the model of the binder's desugaring. "
                      "C27_desugar assumes the key expressions evaluate on every input row (the reference evaluates all keys for every set, a branch only its own) and sets without duplicates "
                      "(GROUPING SETS ((a, a)) is outside the theorem; generated sets are ascending). No defect of the grouping-sets mechanism itself is known; the unchanged tree fails on NULL keys "
                      "through the aggregate operators (C27-F1, inherited from C21-F3 / C21-F4).",
        "technique": "Lean 4 proof over reference semantics + executable model; differential correspondence with the Rust engine on generated SQL",
    },
}
