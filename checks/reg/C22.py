_Q = {"big_every": "25", "huge_every": "200"}
_T = {"big_every": "10", "huge_every": "150"}
ENTRY = {
    "level": "proof",
    "families": [fam("C22", 420, 4200, opts={"quick": _Q, "thorough": _T})],
    "gen_items": [],
    "rule": "family C22 over two generated tables t0(id0,a0,b0,c0,v0) / t1(id1,a1,b1,c1,v1): key columns a/b/c of the same type on both sides "
            "(BIGINT / INTEGER / VARCHAR / DATE), NULL density 0/10/50/100 % per key column, small domains (duplicates), BIGINT payload v with 10 % NULLs; "
            "join type in rotation over INNER, LEFT, RIGHT, FULL OUTER, LEFT SEMI, LEFT ANTI, CROSS; 1-3 equi keys; residual ON predicate from "
            "{none, v0<v1, v0<=v1, v0<>v1, never-true arithmetic, left-only, right-only}; "
            "2/3 kind:sql = the statement (JOIN syntax; for Semi/Anti 1 in 3 as [NOT] EXISTS with equality correlation and optionally a two-sided column comparison; 1 in 8 with a nested join `t1 x1 <inner|left|right> t1 x2` or `t0 x0 <..> t0 x9` as right or left input, VARCHAR keys preferred; 1 in 8 as SELECT COUNT(*), COUNT(col).. over the join) through ExecutionContext::sql, "
            "configuration in rotation over mem1, memb, pq1x64, pq2x7, pq2x500 (Parquet: StreamingParquetScanExec + SharedRuntimeFilter; multi-key Parquet joins run "
            "without the PackedJoinKeys rule, which is C03's), 1 case in 40 pairs an INTEGER with a BIGINT key (f:mixed_width); "
            "1/3 kind:op = HashJoinExec::with_filter(..).with_build_right(coin) driven directly over input operators with 1-4 partitions x chosen batches "
            "(empty batches and batch-less partitions included, 1 in 6 with >= 32 one-row batches), partitions executed in order or reversed; "
            "sizes tiny/small/mid, every 25th case 990..1500 rows on one side (the 1000-probe-row gate), every 200th 9999..10400 (the 10000 gate); the larger table is halved "
            "until at most 3000 key-equal pairs remain. Oracle = Spec.acceptable on the engine's rows (an engine error or panic is a failure); K = rows equal "
            "IQE.Engine.HashJoin.hashJoin (all switches off) over the same partitions x batches, as bags. non-trivial: the engine answered and the reference answer is non-empty; "
            "distinct by sha256 of the canonical case",
    "trusted_base": COMMON_TB + [
        "modelled not verified: HashJoinExec::execute / probe_vectorized / probe_hash_table / probe_semi_anti_parallel as IQE.Engine.HashJoin "
        "(hash table = association list; parallel probes = sequential fold; the atomic shared tracker = a bitmap OR-ed per partition)",
        "the planner's choice of build side and the optimizer's extraction of equi keys from ON are not modelled: the model is configured from the statement "
        "(equality conjuncts between a left and a right column = keys, the rest = residual) and is proved independent of the build side",
        "SQL reference semantics IQE.Spec (ours); SQL text <-> plan correspondence is the generator's (harness/src/fam_c22.rs over sqlgen's AST printer / plan serializer)",
    ],
    "assumptions": [
        "CROSS joins carry no ON condition (hypothesis hcross of C22_refines); Inner/Cross residuals that the planner evaluates in a Filter above the join are judged at statement level only",
        "join keys are BIGINT / INTEGER / VARCHAR / DATE columns of equal type; DOUBLE keys (-0.0 / NaN equality is engine-defined) are not generated",
        "no memory limit is configured: the spilled join path belongs to C08; Single / Mark join types are outside the property",
    ],
    "min_tags": {"kind:sql": 1, "kind:op": 1, "jt:inner": 1, "jt:left": 1, "jt:right": 1, "jt:full": 1, "jt:semi": 1, "jt:anti": 1, "jt:cross": 1,
                 "form:exists": 1, "form:nested": 1, "form:count": 1, "cfg:mem": 1, "cfg:memb": 1, "cfg:pq": 1, "cfg:op": 1, "nkeys:1": 1, "nkeys:2": 1, "nkeys:3": 1,
                 "resid:none": 1, "resid:lt": 1, "resid:ne": 1, "resid:never": 1, "build:left": 1, "build:right": 1, "probe_parts:multi": 1,
                 "op:StreamingParquetScan": 1, "residual:yes": 1},
    "manifest": {
        "category": "proof",
        "text": "Lean theorems over the executable hash-join model (build with NULL keys never inserted / per-batch probe / residual on candidate pairs BEFORE match tracking / "
                "probe_matched and build_matched / emission per join type / either build side / shared tracker across probe partitions / runtime key filter), all deviation "
                "switches off: C22_refines — for all 7 join types, key lists of any length, any residual, both build sides and EVERY partitioning and batching of both inputs the output "
                "is, as a bag, the nested-loop join with ON = keys equal AND residual (by induction over batches with the tracker invariant C22_tracker_invariant), and "
                "C22_refines_spec the same against Spec.joinRows; C22_batching_irrelevant, C22_build_side_irrelevant; C22_null_keys_never_match(_right): a row with a NULL key "
                "component contributes exactly its NULL-extension (outer), itself (Anti) or nothing; C22_outer_null_extends: outer = inner + each unmatched preserved row exactly "
                "once, all-NULL other side; C22_filter_before_tracking(_right): a row all of whose key candidates fail the residual counts as unmatched; "
                "C22_runtime_filter_sound: the probe-side key filter is sound for Inner, Semi and build-left Anti (and changes Left / probe-output Anti: kernel-checked witnesses). "
                "Every deviation switch has a kernel-checked negation witness. Tie: generated join statements through ExecutionContext::sql over memory and Parquet tables, and "
                "HashJoinExec driven directly over chosen partitions x batches, compared with the model (K) and judged by Spec.acceptable (O).",
        "design_ref": "DESIGN.md §6 C22",
        "level_note": "Trusted: Lean kernel; propext/Classical.choice/Quot.sound; the reference semantics IQE.Spec; the hand-written model's fidelity to hash_join.rs "
                      "(sampled by K at operator level over partitions x batches and both build sides); the generator's SQL printer/plan serializer pair. "
                      "Sampled only: the planner's build-side choice and key extraction, Parquet scans with the runtime filter, sizes beyond 10 400 rows, the >= 32-batch parallel probe. "
                      "Not covered: the spilled join (C08), Single/Mark joins, DOUBLE keys, the optimizer's join rules (C03/C32), decorrelation of EXISTS with arithmetic "
                      "correlated predicates (C23). Findings of the original tree, each repaired in /repo by a fix: commit and replayed from corpus/C22 on every run (known_findings.json): C22-F1 filtered Semi/Anti probed an empty hash table (8981687); C22-F2 filtered Semi/Anti stopped at the first qualifying build row (fe1666e); C22-F3 INTEGER/BIGINT key pair panicked or failed (88e4154); C22-F4 outer join with a batch-less build input failed (448e791); C22-F5 the compiled Semi/Anti residual ignored NULL (a78c24c); C22-F6 a dictionary-encoded VARCHAR probe key matched nothing (ce75497); C22-F7 NULLs of a dictionary-gathered build column were not NULL downstream (8446944); C22-F8 Semi/Anti over a join output failed on the dictionary column type (f4afed7). The deviation switches of the model stay as their kernel-checked negation witnesses.",
        "technique": "Lean 4 proof over executable model + differential correspondence with the Rust engine on generated SQL and on the hash-join operator driven directly",
    },
}
