ENTRY = {
    "level": "proof",
    "families": [fam("C30", 300, 3000)],
    "gen_items": ["DataType", "exec_coerce", "plan_coerce"],
    "extra_props": ["IQE.Props.C30Gen"],
    "rule": "sqlgen statements (strata filter, case, join, agg, distinct, setop, cte, values, subquery, sort_limit rotating; generated catalogs of 1-4 tables, "
            "NULL densities 0/10/50/100 %, single-batch and multi-batch registration alternating); every 5th statement gets LIMIT 0 on top so that empty results "
            "(zero batches) are judged too; 2 of every 10 cases belong to the stratum shape:union-plain-then-join (UNION ALL of a plain scan/projection and a hash join projecting a VARCHAR column of the small single-batch build side, both branch orders, the join alone, 3 branches, multi-batch probe side, LEFT/RIGHT joins; the child also drives the physical plan by hand and tags dict-batch when an operator hands out a dictionary-encoded array before the result boundary; batches>1 when several batches were returned; EVERY returned batch is compared with the reported schema); every 4th case is a RAW statement (family C29's tame generator over its fixed tables: functions, windows, ROLLUP, SELECT *, scalar subqueries - no plan JSON, judged by O only, run in a supervised child process); per statement: QueryResult.schema, ctx.physical_plan(sql).schema(), the schema of every returned batch and the data types of the "
            "batches' column arrays, compared by name and Arrow type (nullability ignored), plus schemaOf(plan) and the aliases written by the generator. "
            "non-trivial = the statement executed and the model types its plan; distinct by sha256 of the case",
    "trusted_base": COMMON_TB + [
        "Spec.run / Spec.eval as the reference semantics (IQE/Spec, owners: coordinator); the theorem is type soundness of THAT semantics",
        "sqlgen's SQL printer and plan serialiser agree (the meaning of the SQL text is the plan's meaning); Arrow type names via Display",
        "Flight GetSchema / FlightInfo is not exercised here (shared with C34)",
    ],
    "assumptions": [
        "PARTIAL: schemaOf covers scan/CTE/VALUES/filter/project/7 join types/GROUP BY aggregates/DISTINCT/ORDER BY/LIMIT/set operations/WITH; GROUPING SETS and window nodes, and output columns typed only by a bare NULL, are outside the theorem (model:none cases are judged by O only)",
        "names: only alias / bare-column names are modelled; rendered-expression names (Display of the bound expression) are unspecified",
        "logical types: Int8..Int64/UInt* -> int, Float32/64 -> f64, Utf8 variants -> str, Date32 -> date, Boolean -> bool; O compares the exact Arrow types of the four views with each other",
    ],
    "min_tags": {"shape:union-plain-then-join": 40, "batches>1": 25, "dict-batch": 5, "status:ok": 50, "model:typed": 50, "batches:0": 5, "batches:some": 20},
    "explanation": "O = the four views of the schema agree (count, names, Arrow types) for every executed statement; K = reported logical types equal Spec.schemaOf(plan) and reported names equal the written aliases.",
    "manifest": {
        "category": "proof",
        "text": "TRANSLATED TIE (IQE/Props/C30Gen.lean): the planner's and the executor's numeric type-coercion tables (both `coerce_numeric_types`) are regenerated from the Rust source on every run (IQE.Gen.Coerce) and proved to agree on every pair of the six signed-integer/float types (C30Gen_plan_exec_agree — the C30-F2 class of defect), the executor's table being total on them. Lean: type soundness of the reference plan semantics w.r.t. the static schema Spec.schemaOf (every returned row has the schema's width and each value is NULL or of the column's type; a typed plan never ends in a static error), "
                "by mutual structural induction over plans on top of expression-level progress/preservation — for scan, CTE, VALUES, filter, project, all join types, GROUP BY aggregates, DISTINCT, ORDER BY, LIMIT/OFFSET, set operations and WITH "
                "(theorem C30_schema_sound_partial; GROUPING SETS and window nodes not covered); the modelled part of the binder's naming rule (C30_names). "
                "Tie: per generated statement the engine's QueryResult.schema, physical-plan schema, batch schemas and array types are compared with each other and with schemaOf / the written aliases, empty results included.",
        "design_ref": "DESIGN.md §6 C30",
        "level_note": "The quantifier over all successfully planned statements is discharged for the reference semantics by induction (for the covered plan fragment) and for the engine only by sampled statements. "
                      "Findings C30-F1 (UNION branches' batch column names, fixed c782bf1) and C30-F2 (same-width integer arithmetic reported one width wider, fixed 60af991) are regression cases now; open: C30-F4 (arithmetic with a DECIMAL operand is reported as Decimal128(38,10) whatever the executor returns). Trusted: Lean kernel; propext/Classical.choice/Quot.sound; Spec semantics; sqlgen; harness.",
        "technique": "Lean 4 type-soundness proof over the reference semantics + differential correspondence of the engine's reported schemas",
    },
}
