ENTRY = {
    "level": "proof",
    "families": [fam("C08", 60, 600)],
    "gen_items": [],
    "rule": "family C08: one statement per case over a generated catalog (2 tables, 4..300 rows, up to 14 batches, NULL density 0/10/50/100 %), run through ExecutionContext::sql "
            "WITHOUT a memory limit and under 2-3 limits of the ladder {8x, 1.25x, 1/3, 1/12 of the input bytes, 200 bytes} (no spill / about one run / several runs / more than 8 "
            "runs = multi-pass merge; join build side and aggregation input spilled); strata in rotation: sort_clean (merge-supported key types, NULL placement the merge implements, "
            "no fused LIMIT), sort_offset (LIMIT + OFFSET: LimitExec over the external sort), sort_f1 (fused LIMIT), sort_f2 (other NULL placement over nullable keys, with its "
            "neutraliser run), sort_f3 (BOOLEAN key, with its neutraliser run), join_inner (int/double/string keys), join_outer (LEFT/RIGHT/FULL: the spill path must fail explicitly), "
            "join_f5 (DATE/BOOLEAN key), agg (GROUP BY 1-2 NULL-free keys, COUNT/SUM/MIN/MAX), agg_nullkeys (keys holding NULLs, with its neutraliser run WHERE keys IS NOT NULL); every ordered statement carries the unique id as last key (total order). "
            "kind agg-spill (6 of 19 rotation slots, >= 25 % of the cases): aggregations the fused streaming path does not serve, over own tables g0/g1 (170-400 / 30-180 rows, 1-6 batches) whose "
            "key columns BIGINT / VARCHAR / DATE / BOOLEAN / DOUBLE hold 10-50 % NULLs, 1-3 key columns: spill_distinct (SELECT DISTINCT), spill_union (UNION), spill_cdist (GROUP BY + "
            "COUNT/SUM(DISTINCT)), spill_groups (GROUP BY with 100+ groups, wide BIGINT key); run unlimited and under 2-3 limits from {64, 200, 1024, 4096, 16384, input/3, input/12, 8x input}; "
            "the harness observes per run whether the engine created its spill directory (tags part:yes / part:no / part+same = a partitioned run that returned the unlimited answer); the limited "
            "answers are compared with the unlimited one also when that one already shows the known NULL-key splitting (base:nullsplit); a difference is attributed to C08-F6 only if the answer is "
            "exactly the reference with NULL-key groups split (NULL-free-key rows identical, re-aggregation by key = reference) - a lost row never is. "
            "non-trivial: non-empty unlimited answer and at least one limited run that returned the same answer; thorough tier adds inputs of 20 000+ rows (runs longer than the "
            "8192-row merge buffer: finding C08-F4); distinct by sha256 of the canonical case",
    "trusted_base": COMMON_TB + [
        "modelled not verified: ExternalSortExec::{generate_runs, merge_runs, multi_pass_merge, streaming_k_way_merge}, SpillableHashJoinExec::execute_spill_path, "
        "SpillableHashAggregateExec::aggregate_with_spilling as IQE.Engine.ExternalMerge (run cut = any grouping of consecutive batches; hash = any function)",
        "Parquet spill files round-trip their rows (write_batches_to_parquet / read_parquet / append / merge_parquet_files): trusted, exercised by the correspondence runs",
        "the reference semantics IQE.Spec.{run, acceptable, sameAnswer}",
    ],
    "assumptions": [
        "the comparison is between runs of the SAME statement with and without a limit (plus the reference semantics for the unlimited run); a statement whose unlimited answer is "
        "already wrong belongs to another property (tag base:wrong, not judged)",
        "an explicit error under a limit is an allowed outcome (the property says so); a panic never is",
        "NaN / -0.0 keys are not generated; floats are dyadic",
    ],
    "min_tags": {"regime:fits": 1, "regime:runs<=8": 1, "regime:multi_pass": 1, "kind:sort": 1, "kind:join": 1, "kind:agg": 1, "lim:same": 1, "stratum:sort_clean": 1, "stratum:sort_offset": 1, "stratum:join_inner": 1, "stratum:agg": 1,
                 "kind:agg-spill": 15, "part:yes": 8, "part+same": 4, "stratum:spill_distinct": 2, "stratum:spill_union": 2, "stratum:spill_cdist": 2, "stratum:spill_groups": 2},
    "manifest": {
        "category": "proof",
        "text": "Lean theorems: for ANY total preorder and ANY cut of the input into runs, the streaming k-way merge of the sorted runs (earliest run wins ties), and multi-pass merging "
                "with any fan-in, is a sorted permutation of the input, agrees with the in-memory sort position by position up to ties, and take k of it is a top-k; the ORDER BY comparator with "
                "per-key NULLS FIRST/LAST is such a preorder (C08_external_sort, C08_external_sort_comparator, C25_spilled); for ANY hash function, partition-wise inner join and partition-wise "
                "GROUP BY concatenated equal the unpartitioned operators as bags (C08_grace_join, C08_spilled_agg); the spilled join returns that answer or an explicit error (C08_either). "
                "The unchanged tree violates the property on the spilled sort path (C08-F1 fetch ignored — repaired by 6bbb4e5, witness replayed from the corpus; open findings C08-F2 NULL placement in the merge, C08-F3 boolean keys compare equal, "
                "C08-F4 merge-buffer reuse for runs longer than 8192 rows, C08-F5 DATE/BOOLEAN join keys dropped, C08-F6 NULL group keys grouped differently by the aggregation path the limit selects): each has a kernel-checked model witness, a witness replayed on the real code on "
                "every run, and exact-mirror or signature+neutraliser attribution; all other strata must pass.",
        "design_ref": "DESIGN.md §6 C08",
        "level_note": "Trusted: Lean kernel; axioms propext/Classical.choice/Quot.sound; the hand-written model of the spill paths (validated by correspondence only; the exact run boundaries and "
                      "the hash function are universally quantified, not modelled); Parquet round trip of spill files; the reference semantics; harness generators. Known findings are attributed only "
                      "inside their own stratum and only if the exact mirror / neutraliser check holds; a deviation anywhere else is a new VIOLATION.",
        "technique": "Lean 4 proof over executable model + metamorphic correspondence (limited vs unlimited runs of the real engine) + SQL reference oracle",
    },
}
