ENTRY = {
    "level": "proof",
    "families": [fam("C35", 240, 5000, env={"RAYON_NUM_THREADS": "4"})],
    "gen_items": ["DistMode::parse_value", "parse_mode", "DistMode"],
    "rule": "one world per run: real nodes spawned in-process with distributed::spawn on 127.0.0.1:0 over Parquet tables f,g (strings needing CSV/JSON escaping included) under $IQE_SCRATCH: "
            "a single node, a 3-node cluster, a node whose only peer is down, a node whose only peer is the harness's fault-injected peer (answers /healthz; fails /fragment as told), "
            "a node whose loader failed, and fresh nodes whose loader is gated (not-ready window; late load). Cases = one HTTP request through http_client each: "
            "10% not-ready nodes (/sql with every mode/format/body kind incl. oversized, empty, non-UTF-8; /fragment), 10% malformed requests on ready nodes, 20% the no-fallback rule "
            "(peer returns HTTP 500/503, garbage, closes, body cut with full or consistent Content-Length), 20% view:unknown-peer (a quiet node whose membership view is written by the case: 1-3 configured peers never probed, absent or alive, alone or mixed with Up/Down peers; the model counts members with status Up only), 40% membership state x mode spelling x format x 13 statements "
            "(Concat/TwoPhase/TopN/gather shapes, empty results, constant select, unknown column/table, syntax error). Bodies are decoded (Arrow IPC reader, serde_json, RFC 4180 parser in the "
            "harness) and compared as bags with the same statement run in-process. non-trivial = a 200 answer, a not-ready node, or an active peer fault; distinct by sha256 of the case",
    "trusted_base": COMMON_TB + [
        "modelled not verified: the control flow of sql()/fragment()/execute_statement (IQE.Engine.FrontDoor); the query-string splitting of DistMode::parse / ResultFormat::parse (firstValue) — validated by correspondence only",
        "arrow-rs IPC/CSV/JSON writers (library code): 'encodes exactly the rows' is decided by decoding on every run, not proved",
        "inputs taken from the real code per case: members up (GET /cluster), plan_distributed verdict, outcome of ctx.sql and of execute_any_distributed over in-process peers",
    ],
    "assumptions": [
        "membership is settled before requests are sent (the harness waits for convergence); races between a probe and a request are not explored",
        "readiness of /sql is 'tables loaded' as in the code; NodeState::ready (discovery resolved, not draining) gates only /readyz",
    ],
    "min_tags": {"not-ready": 1, "node-L0": 1, "node-X": 1, "fault-active": 1, "dist-true": 1, "dist-false-off": 1, "dist-false-one-member": 1, "dist-false-plan-refused": 1,
                 "fmt-arrow": 1, "fmt-json": 1, "fmt-csv": 1, "mode-bad": 1, "fmt-bad": 1, "status-503": 1, "status-501": 1, "rows-compared": 20, "path/fragment": 1,
                 "view-unknown-peer": 36, "unk-absent": 5, "unk-alive": 5, "view-mixed": 5, "view-unknown-only": 5},
    "manifest": {
        "category": "proof",
        "text": "Lean theorems over the executable model of the SQL front door: a node whose tables are not loaded never answers /sql or /fragment (503); Auto distributes iff >= 2 members are up and "
                "the exact scatter plan exists and otherwise answers locally with a reason; Off never and Force always distributes; once the decision is 'distribute' the response depends on the "
                "distributed execution alone (no fallback to a local answer) and a failure is an error status; the HTTP and Flight mode vocabularies are characterised for every string over the "
                "translator-generated parse_value / parse_mode. Tied to the code by correspondence over real spawned nodes and real HTTP; the body encodings are checked by decoding every 200 body.",
        "design_ref": "DESIGN.md §6 C35",
        "level_note": "Trusted: Lean kernel; axioms propext/Classical.choice/Quot.sound; the hand-written model of the handlers (validated by correspondence only); arrow-rs writers; harness decoders and the fault-injected peer. "
                      "Not covered: probe/request races, draining, body encodings of types other than BIGINT/VARCHAR.",
        "technique": "Lean 4 proof over executable model + translator-generated definitions + differential correspondence over real in-process nodes",
    },
}
