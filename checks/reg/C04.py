ENTRY = {
    "level": "proof",
    "families": [fam("C04", 40, 1200)],
    "gen_items": [],
    "rule": "30% stratum shape:clustered-range-agg (table t0(k sorted null-free, v, g) of files x row-groups x rows = (1..3) x (3..8) x {3,4,5,7,10,16} rows, written with exactly that row-group size; "
            "global or GROUP BY g aggregates COUNT(*)/SUM/MIN/MAX/COUNT over the unaliased table under k >=|> lo AND k <=|< hi, BETWEEN, or a one-sided range, bounds on row-group "
            "boundaries, boundary +-1 or inside a row group: pruned, proved-all-true and partly matching row groups on the morsel path), 30% aggregate templates and 40% sqlgen statements as follows: "
            "60% sqlgen statements (strata filter/join/agg/distinct/setop/sort_limit/cte/subquery, no cross joins), 40% hand-written aggregate templates over an "
            "UNALIASED table (0/1/2 group keys of any type, COUNT(*)/SUM/MIN/MAX/COUNT over an integer column, optional integer WHERE) - the only logical shape that "
            "reaches MorselAggregateExec and its dense variant (sqlgen aliases every table); generated catalogs of 1-3 tables "
            "(0..300 rows, NULL densities 0/10/50/100 %); each statement on the same rows as one memory batch per table, as the generated memory batches, "
            "as Parquet with 1..4 files per table x max row-group size drawn from {1, 7, 64, 1024}, and as one Parquet file with one row group; every Parquet "
            "layout under four planner-path variants in separate child processes (default / QE_VERIF_FORCE_STREAMING_SCAN=1 / QE_VERIF_NO_PRESCAN=1 / both), "
            "QE_IPC_CACHE=0; non-trivial = >= 2 answering runs incl. a Parquet one and a non-empty result; distinct by sha256 of the canonical case",
    "trusted_base": COMMON_TB + [
        "modelled not verified: the scan / aggregation path choice of physical::planner and the four paths (IQE.Engine.ScanPath); pruning soundness is a hypothesis of "
        "C04_path_streaming (it is property C05)",
        "harness/src/sqlgen (statement generator, SQL printer, Parquet writer, Arrow->value canonicalisation) and IQE.Spec.sameAnswer",
        "parquet / arrow crates (row-group writing and decoding)",
    ],
    "assumptions": [
        "statements whose in-memory single-batch run fails or returns more than 1500 rows are not used",
        "files stay far below the 400 MB thresholds: the streaming-scan and no-prescan paths are reached through the verif-hooks flags, the morsel "
        "aggregation path through the planner's own routing of aggregates over unaliased Parquet tables (recorded per case as path:<variant>:<operator> tags from ctx.physical_plan)",
    ],
    "min_tags": {"variant:d": 1, "variant:s": 1, "variant:n": 1, "files:multi": 1, "rg:1": 1, "rg:1024": 1,
                 "path:d:MorselAggregate": 1, "shape:clustered-range-agg": 8, "path:morsel_taken": 8, "range:two_sided": 1, "path:s:StreamingParquetScan": 1, "path:d:MemoryTableScan": 1, "path:n:StreamingParquetScan": 1},
    "manifest": {
        "category": "proof",
        "text": "Lean theorems: the reference semantics Spec.run depends only on the bag of rows of each table, so any two cuts of the same rows into files, row "
                "groups and batches give Perm-equal answers and the same success/failure — proved by induction on the plan for the fragment scan / CTE reference / "
                "WHERE / projection / inner, left, semi, anti and cross joins / UNION ALL / DISTINCT (theorems named _partial: aggregation, window, right and full joins, "
                "subquery expressions, WITH, de-duplicating set operations and ORDER BY / LIMIT are not covered by the proof); the models of the eager, streaming (given "
                "sound pruning), shared-prescan and morsel-aggregation paths equal the plain scan / fold for every layout, slicing and merge order; with the deviation "
                "switch off all aggregation paths have the same error domain, with it on a kernel-checked witness of DESIGN A.5. Tied to the code by configuration-"
                "invariance runs of generated SQL: memory vs Parquet layouts x planner-path variants.",
        "design_ref": "DESIGN.md §6 C04",
        "level_note": "Trusted: Lean kernel; axioms propext/Classical.choice/Quot.sound; the hand-written path models (validated by the runs only); sqlgen + "
                      "Spec.sameAnswer; the parquet/arrow crates. Finding C04-F1 (dense aggregation refused NULL group keys, A.5) was repaired in /repo (4efd9ed); its witness is replayed first on every run.",
        "technique": "Lean 4 proof (induction on the plan; bag algebra) + metamorphic configuration-invariance runs on the Rust engine",
    },
}
