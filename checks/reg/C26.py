ENTRY = {
    "level": "proof",
    "families": [fam("C26", 700, 7000)],
    "gen_items": ["FrameBound", "rows_start", "rows_end", "frame_clip"],
    "rule": "family C26: SELECT <all columns>, <1-2 window calls> FROM t through ExecutionContext::sql over one generated table (0..60 rows, 1..5 columns over "
            "i64/i32/f64(dyadic)/str/date/bool, NULL density 0/10/50/100 %, alternately the generated batches and one batch); every supported function "
            "(row_number rank dense_rank percent_rank cume_dist ntile lag lead first_value last_value nth_value count(*) count sum avg min max) x PARTITION BY 0..2 keys x "
            "ORDER BY 0..2 keys (DESC 1/3, NULLS FIRST/LAST/default) x frame (absent 1/4; ROWS or RANGE with every pair of bound kinds, offsets 0..7; numeric RANGE offsets over "
            "an int / double / date key; inverted bound kinds in 1/8); a unique tie-breaker key is appended to 2/3 of the order-sensitive calls; one statement in eight comes from the "
            "invalid / boundary stream (GROUPS, IGNORE NULLS, FILTER, DISTINCT, RANGE offset over a string key or two keys, non-literal offset, NTILE(0), NTH_VALUE(.., 0), "
            "UNBOUNDED FOLLOWING start, offsets 2^32 / 2^63-1 / 2^64-1). Corpus: the witnesses of the three repaired defects C26-F1..F3. "
            "non-trivial: rows returned for a non-empty reference answer and judged (exact, or ROW_NUMBER judged relationally over ties), or a refusal expected and judged; "
            "order-sensitive functions over peers that tie (other than ROW_NUMBER) are tagged ties_unjudged; distinct by sha256 of the canonical case",
    "trusted_base": COMMON_TB + [
        "modelled not verified: WindowExec::evaluate_window (IQE.Engine.Window): permutation sort, partition / peer ranges (arrow partition kernel = adjacent-inequality boundaries), "
        "per-function kernels, RANGE-offset scans, prefix sums, scatter; arrow lexsort_to_indices / take / partition / cast / zip are library routines",
        "the engine's one permutation sort makes each partition a contiguous ordered slice: not proved (theorems are per ordered partition), tied by correspondence",
        "the reference semantics IQE.Spec.Window (cross-checked against SQLite 3.40 on 2640 random window queries, 0 differences) and the binder's parse of OVER clauses",
    ],
    "assumptions": [
        "RANGE offsets: keys and offsets below 2^53 (the code compares `as f64`; the model compares integers exactly): named gap",
        "SUM/AVG over integers: totals below 2^53 (f64 prefix sums in the code, exact integers in the model); i64 overflow is engine-defined and skipped",
        "NaN / -0.0 order keys and arguments are not generated (engine-defined); LAG/LEAD defaults are literals of the argument's type",
        "the numeric-offset RANGE scans are only partially proved (C26_frame_range_partial); they are compared with the implementation and the declarative semantics on every generated case",
    ],
    "min_tags": {"fn:row_number": 1, "fn:rank": 1, "fn:dense_rank": 1, "fn:percent_rank": 1, "fn:cume_dist": 1, "fn:ntile": 1, "fn:lag": 1, "fn:lead": 1,
                 "fn:first_value": 1, "fn:last_value": 1, "fn:nth_value": 1, "fn:count_star": 1, "fn:count": 1, "fn:sum": 1, "fn:avg": 1, "fn:min": 1, "fn:max": 1,
                 "rows_frame": 1, "range_frame": 1, "range_offset": 1, "partitioned": 1, "refuse": 1, "stream:invalid": 1, "exact": 1, "ties_relational": 1},
    "manifest": {
        "category": "proof",
        "text": "Lean theorems per ordered partition: ROWS frames over the TRANSLATED rows_start/rows_end/frame_clip are exactly the declarative a PRECEDING..b FOLLOWING frame for every "
                "combination of bound kinds, clamped and possibly empty, and cut the reference frame Spec.Win.frameOf out of the partition (C26_frame_rows, C26_frame_rows_spec); peer ranges "
                "(adjacent-equal runs) are exactly the tie classes, so RANK-1 = rows strictly before, CUME_DIST*n = rows before-or-tied, PERCENT_RANK's numerator (C26_rank, C26_cume_dist, "
                "C26_percent_rank, C26_peerEq_is_tie), RANGE UNBOUNDED/CURRENT ROW frames = whole peer groups (C26_frame_range_partial); prefix-sum COUNT/SUM = aggregate over the frame slice incl. "
                "empty frames and NULL arguments (C26_frame_agg); LAG/LEAD and FIRST/LAST/NTH index arithmetic (C26_lag_lead, C26_first_last_nth); ROW_NUMBER = 1..m (C26_row_number); scatter "
                "back to input order with input columns unchanged (C26_scatter). NTILE closed formula = declarative buckets (C26_ntile); DENSE_RANK = one plus the distinct tie classes strictly before (C26_dense_rank). Partial: numeric RANGE offsets are "
                "modelled and sampled, not proved. Kernel-checked negation witnesses for the three defects found and repaired (71f6bb2, 2f0b366, 99283f8). Tied to the code by the translator "
                "(ROWS arm) and by correspondence + declarative SQL oracle on generated window statements, incl. a stream that must be refused by name.",
        "design_ref": "DESIGN.md §6 C26",
        "level_note": "Trusted: Lean kernel; axioms propext/Classical.choice/Quot.sound; translator semantics; the hand-written model of evaluate_window (validated by correspondence only); "
                      "that the permutation sort groups partitions contiguously (correspondence only); the reference semantics (cross-checked against SQLite); Arrow kernels; harness generators.",
        "technique": "Lean 4 proof over translated frame arithmetic + executable model, differential correspondence through the SQL front door, declarative SQL oracle",
    },
}
