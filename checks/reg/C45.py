ENTRY = {
    "level": "proof",
    "families": [fam("C45", 160, 1600, env={"RAYON_NUM_THREADS": "4", "TOKIO_WORKER_THREADS": "4"})],
    "gen_items": [],
    "rule": "one case = one sqlgen statement that plan_distributed REFUSES (so execute_any_distributed takes the gather path), strata rotating over join / subquery / cte / setop / "
            "distinct / sort_limit / agg (derived tables projecting unused columns, self-joins, IN / EXISTS / scalar subqueries, chained and unreferenced CTEs, UNION / INTERSECT / EXCEPT), "
            "over a generated catalog of 1-4 tables written as Parquet (1-3 files, row groups of 2..1000 rows) and one cluster of 1..8 in-process participants; the harness records "
            "plan_gather's table / column lists, the exported OPTIMIZED plan (the one collect_scans walks) and BOUND plan, the provider schemas, and three runs: single-node, "
            "execute_gathered(plan_gather), execute_gathered over every column of every table; non-trivial = the gathered run answers a non-empty result and some table was pruned; "
            "distinct by sha256 of the canonical case",
    "trusted_base": COMMON_TB + [
        "the plan exporter harness/src/planexport.rs + lean/Driver/PlanJson.lean (by the C31 owner) render the engine's public LogicalPlan structurally",
        "modelled not verified: collect_scans / collect_expr_columns / plan_gather as IQE.Engine.Gather.{collect, exprCols, gatherPlan} (K: EQUAL table and column lists on every case)",
        "name resolution is the first-match rule IQE.Engine.PlanWf.resolve (model of find_column_index); the binder's own resolution is exercised only by the correspondence runs",
    ],
    "assumptions": [
        "C45_rebind speaks of references that resolve on ONE scan schema; scoping across derived tables / CTEs is the binder's and is covered by the runs only",
        "the answer part (re-running gives the single-node answer) rests on C09_gather_partial for the fragment proved there, on the correspondence runs otherwise",
    ],
    "min_tags": {"gather:pruned": 1, "gather:all": 1, "gather_tables:2": 1, "s:join": 1, "s:subquery": 1, "s:cte": 1, "s:setop": 1, "s:distinct": 1, "gathered:right": 1},
    "explanation": "K compares with the model under the switches of the code as it is: none since C45-F1 was fixed (before: skipSubqueryPlans). The attribution rules of Driver.C45 "
                   "(full gather repairs the run and the intended model gathers more / an unreferenced CTE exists) are inactive while both ids are fixed: a recurrence is a VIOLATION.",
    "manifest": {
        "category": "proof",
        "text": "Lean theorems over the executable model of plan_gather / collect_scans on the engine's exported plan type: with the walk entering the plans of subquery expressions "
                "(the intended algorithm) every column any Scan of the plan reads - projection and pushed-filter columns, scans inside scalar / EXISTS / IN subqueries included - is "
                "gathered, several scans of one table merge as a union with 'all columns' absorbing, a column-less scan still gathers one column (C45_covers_plan, C45_covers_plan_acc, "
                "C45_merge_union, C45_columnless_scan); the walk as coded (LogicalPlan::children only) covers exactly the scans it reaches (C45_covers_plan_children) and misses the rest "
                "(C45_F1_witness, kernel-checked); re-binding over a table from which only non-gathered columns were dropped resolves every reference to the SAME field "
                "(C45_rebind, C45_rebind_all). Tied to the code by correspondence: the model's table / column lists EQUAL plan_gather's on every generated statement, and the statement "
                "re-run over the gathered tables is compared with the single-node answer. Found by this check and repaired in /repo: C45-F1 (scans inside subquery expressions were not "
                "collected: bind error or a silently WRONG answer; 1c600c2), C45-F2 (tables / columns of an unreferenced CTE definition were not gathered although the binder binds it; "
                "6d3344d - plan_gather now also plans every top-level CTE definition, which the model mirrors); witnesses stay in corpus/C45.",
        "design_ref": "DESIGN.md §6 C45",
        "level_note": "Trusted: Lean kernel; axioms propext/Classical.choice/Quot.sound; the plan exporter; the hand-written model of collect_scans (validated by equality with plan_gather's "
                      "output on every case); harness generators. Not covered: window functions in generated statements (sqlgen has no window stratum), the binder's scoping rules.",
        "technique": "Lean 4 proof over executable model on exported engine plans + differential correspondence (plan_gather output, gathered vs single-node answers)",
    },
}
