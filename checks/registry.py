"""Loads per-property entries from checks/reg/Cxx.py (each defines ENTRY). See tools/AGENT_GUIDE.md."""
import os, importlib.util

def fam(name, quick, thorough, driver=None, opts=None, env=None):
    d = {"family": name, "cases": {"quick": quick, "thorough": thorough}}
    if driver: d["driver"] = driver
    if opts: d["opts"] = opts
    if env: d["env"] = env
    return d

COMMON_TB = [
    "correspondence harness + generators (a disagreement they never generate is never seen)",
    "hand-written Lean model mirrors the Rust control flow (tie = behavioural correspondence on generated cases)",
]

REGISTRY = {}
_d = os.path.join(os.path.dirname(os.path.abspath(__file__)), "reg")
for _f in sorted(os.listdir(_d)):
    if _f.endswith(".py") and _f[0] == "C":
        _s = importlib.util.spec_from_file_location(_f[:-3], os.path.join(_d, _f))
        _m = importlib.util.module_from_spec(_s)
        _m.fam, _m.COMMON_TB = fam, COMMON_TB
        _s.loader.exec_module(_m)
        REGISTRY[_f[:-3]] = _m.ENTRY
