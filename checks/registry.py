"""Per-property registry read by ./check.  Adding a property = one entry here + Lean Props/Audit + a harness family + a driver handler."""

def fam(name, quick, thorough, driver=None, opts=None, env=None):
    d = {"family": name, "cases": {"quick": quick, "thorough": thorough}}
    if driver: d["driver"] = driver
    if opts: d["opts"] = opts
    if env: d["env"] = env
    return d

COMMON_TB = [
    "correspondence harness + generators (a disagreement they never generate is never seen)",
    "hand-written Lean model mirrors the Rust control flow (tie = behavioural correspondence on generated cases)",
]

REGISTRY = {
    "C42": {
        "level": "proof",
        "families": [fam("C42", 6000, 300000)],
        "gen_items": [],
        "rule": "cases: 40% rendered cpulists of random sets (random range grouping, order, duplicates, ASCII whitespace, '+', leading zeros), "
                "40% junk token strings (overflowing numbers, reversed ranges, Unicode whitespace/digits), 20% workers_for points incl. 0 and usize::MAX; "
                "non-trivial = cpulist whose output has >= 2 ids, or workers_for with work,pool >= 1; distinct by sha256 of the canonical case",
        "trusted_base": COMMON_TB + ["modelled not verified: parse_cpulist loop (IQE.Engine.CpuList); Rust str::trim/split/split_once/parse::<usize> semantics as written in IQE.Core.Text"],
        "assumptions": ["ranges whose upper end is huge are not generated (the real code would allocate without bound; outside this property)"],
        "min_tags": {"rendered": 1, "junk": 1, "workers": 1},
    },
}
