/-
  Self-test of the generated definitions against values computed BY HAND from the Rust source.
  Not part of the lake library. Run (after `iqe-translate` and `lake build IQE.Gen.*`):

      cd /verif/lean && lake env lean ../translator/selftest/Selftest.lean

  Every check is a `#guard` or an `example … := by decide`, so a wrong value is an error.
-/
import IQE.Gen.Pruning
import IQE.Gen.Topology
import IQE.Gen.Splits
import IQE.Gen.Limit
import IQE.Gen.Window
import IQE.Gen.Compiled
import IQE.Gen.FrontDoor
import IQE.Gen.OptGates
import IQE.Gen.AggState
import IQE.Gen.Coerce
import IQE.Gen.PruningInt
import IQE.Gen.MembershipGen

open IQE.Gen

/-! ## Topology: `work_units.clamp(1, max.max(1))` -/
open Topology in #guard workers_for 0 0 == 1
open Topology in #guard workers_for 5 3 == 3
open Topology in #guard workers_for 2 8 == 2
open Topology in #guard workers_for 0 8 == 1
example : Topology.workers_for 0 0 = 1 := by decide
example : Topology.workers_for_inRange 0 0 := by
  unfold Topology.workers_for_inRange Rs.clampOk; decide

/-! ## Splits -/
section
open Splits
#guard MIN_SPLIT_BYTES == 4194304
#guard MAX_SPLIT_BYTES == 67108864
#guard SPLITS_PER_NODE == 32
-- empty table, zero nodes: nodes→1, floor = min(4Mi, 0).max(1) = 1, ideal = 0, clamp(1, 64Mi) = 1
#guard target_split_bytes 0 0 == 1
-- the two asserts of the Rust unit test
#guard target_split_bytes ((2^64 - 1) / 2) 3 == MAX_SPLIT_BYTES
#guard target_split_bytes (64 * MIN_SPLIT_BYTES) 3 == MIN_SPLIT_BYTES
-- table smaller than nodes * MIN: floor yields to ceil(1000/4) = 250; ideal = 1000/128 = 7
#guard target_split_bytes 1000 4 == 250
-- 10 GiB over 8 nodes: ideal = 10737418240 / 256 = 41943040, inside [4Mi, 64Mi]
#guard target_split_bytes 10737418240 8 == 41943040
example : target_split_bytes 1000 4 = 250 := by decide

#guard Split.is_whole_row_group ⟨0, 0, 100, 5⟩ 100 == true
#guard Split.is_whole_row_group ⟨0, 1, 99, 5⟩ 100 == false
#guard Split.is_whole_row_group ⟨0, 0, 99, 5⟩ 100 == false

-- cutting loop of enumerate_parquet
#guard cut_pieces 100 7 100 == 1          -- bytes <= target
#guard cut_pieces 100 7 30 == 4           -- ceil(100/30) = 4
#guard cut_pieces 100 2 10 == 2           -- never more pieces than rows
#guard cut_base 7 4 == 1
#guard cut_remainder 7 4 == 3
#guard cut_piece_rows 1 2 3 == 2          -- leading pieces take the remainder
#guard cut_piece_rows 1 3 3 == 1
#guard cut_piece_bytes 3 4 16 100 1 7 == 16   -- last piece takes what is left
#guard cut_piece_bytes 0 4 100 100 2 7 == 28  -- 100 * 2 / 7
-- the pieces of a 7-row group cut 4 ways cover it exactly
#guard ([0, 1, 2, 3] : List Int).foldl (fun acc p => acc + cut_piece_rows (cut_base 7 4) p (cut_remainder 7 4)) 0 == 7
end

/-! ## Pruning -/
section
open Pruning
#guard flip_op .Lt == .Gt
#guard flip_op .LtEq == .GtEq
#guard flip_op .Gt == .Lt
#guard flip_op .GtEq == .LtEq
#guard flip_op .Eq == .Eq
#guard flip_op .NotEq == .NotEq
example : ∀ op, flip_op (flip_op op) = op := by intro op; cases op <;> rfl

-- eval_range(op, val, min, max): "might a row of [min, max] satisfy `col op val`?"
#guard eval_range .Lt 5 5 9 == false      -- min < val
#guard eval_range .LtEq 5 5 9 == true
#guard eval_range .Gt 9 5 9 == false      -- max > val
#guard eval_range .GtEq 9 5 9 == true
#guard eval_range .Eq 7 5 9 == true
#guard eval_range .Eq 10 5 9 == false
#guard eval_range .NotEq 5 5 5 == false
#guard eval_range .NotEq 5 5 6 == true
#guard eval_range .Add 0 1 2 == true      -- `_ => true`
#guard eval_range_i32 .Lt 5 5 9 == false

def f1 : IQE.F64 := ⟨0x3FF0000000000000⟩   -- 1.0
def f2 : IQE.F64 := ⟨0x4000000000000000⟩   -- 2.0
def f3 : IQE.F64 := ⟨0x4008000000000000⟩   -- 3.0
#guard eval_range_f64 .Eq f2 f1 f3 == true
#guard eval_range_f64 .Eq IQE.F64.nan f1 f3 == false     -- NaN is unordered
#guard eval_range_f64 .NotEq IQE.F64.nan f1 f1 == true
#guard eval_range_f64 .Lt f1 f1 f3 == false
#guard eval_range_f64 .Eq IQE.F64.negZero IQE.F64.posZero IQE.F64.posZero == true   -- -0 == +0

#guard eval_range_str .Lt ⟨[98]⟩ ⟨[97]⟩ ⟨[99]⟩ == true    -- "a" < "b"
#guard eval_range_str .Lt ⟨[97]⟩ ⟨[97, 0]⟩ ⟨[99]⟩ == false -- "a\0" < "a" is false
#guard eval_range_str .Eq ⟨[97, 98]⟩ ⟨[97]⟩ ⟨[98]⟩ == true  -- "a" <= "ab" <= "b"

-- definite_table(op, min, max, val): "does EVERY row of [min, max] satisfy `col op val`?"
#guard definite_table .Lt f1 f2 f3 == true       -- max < val
#guard definite_table .Lt f1 f3 f3 == false
#guard definite_table .LtEq f1 f3 f3 == true
#guard definite_table .Gt f2 f3 f1 == true       -- min > val
#guard definite_table .GtEq f1 f3 f1 == true
#guard definite_table .Eq f2 f2 f2 == true
#guard definite_table .Eq f1 f2 f2 == false
#guard definite_table .NotEq f2 f3 f1 == true    -- val < min
#guard definite_table .NotEq f1 f3 f2 == false
#guard definite_table .Like f1 f1 f1 == false    -- `_ => false`
end

/-! ## Limit: OFFSET 3 LIMIT 4 over batches of 2, 5 and 3 rows -/
section
open Limit
def s0 : LimitState := ⟨3, some 4, 0, 0⟩
-- batch 1 (2 rows): to_skip = min(3, 2) = 2 = num_rows → None, skipped = 2
#guard s0.take_from ⟨0, 2⟩ == (⟨3, some 4, 2, 0⟩, none)
-- batch 2 (5 rows): to_skip = 1, batch.slice(1, 4); emit = min(4 - 0, 4) = 4; not sliced again
#guard (s0.take_from ⟨0, 2⟩).1.take_from ⟨2, 5⟩ == (⟨3, some 4, 3, 4⟩, some ⟨3, 4⟩)
-- batch 3: limit reached, emit = 0 → None; counters unchanged
#guard (⟨3, some 4, 3, 4⟩ : LimitState).take_from ⟨7, 3⟩ == (⟨3, some 4, 3, 4⟩, none)
#guard (⟨3, some 4, 3, 4⟩ : LimitState).satisfied == true
#guard (⟨3, some 4, 3, 3⟩ : LimitState).satisfied == false
#guard (⟨3, none, 3, 1000⟩ : LimitState).satisfied == false
-- LIMIT 2 without OFFSET on a 5-row batch: batch.slice(0, 2)
#guard (⟨0, some 2, 0, 0⟩ : LimitState).take_from ⟨10, 5⟩ == (⟨0, some 2, 0, 2⟩, some ⟨10, 2⟩)
-- no LIMIT: everything after the offset
#guard (⟨1, none, 0, 0⟩ : LimitState).take_from ⟨0, 5⟩ == (⟨1, none, 1, 4⟩, some ⟨1, 4⟩)
example : s0.take_from ⟨0, 2⟩ = (⟨3, some 4, 2, 0⟩, none) := by decide
-- the side conditions hold on this run …
example : s0.take_from_inRange ⟨0, 5⟩ := by
  simp [LimitState.take_from_inRange, s0, Slice.num_rows, Slice.slice, Slice.sliceOk, Rs.min, Rs.satSubU,
    Rs.Cmp.lt, Rs.Cmp.eq, Rs.USIZE_MAX, Id.run, pure, bind]
-- … and catch a `fetched + emit` that would overflow usize
example : ¬ (⟨0, none, 0, Rs.USIZE_MAX⟩ : LimitState).take_from_inRange ⟨0, 5⟩ := by
  simp [LimitState.take_from_inRange, Slice.num_rows, Slice.sliceOk, Rs.Cmp.lt, Rs.Cmp.eq, Rs.USIZE_MAX,
    Id.run, pure, bind]
end

/-! ## Window: ROWS frame bounds -/
section
open Window
#guard rows_start .UnboundedPreceding 5 2 10 == 2
#guard rows_start (.Preceding 2) 1 0 10 == 0     -- 1.saturating_sub(2).max(0)
#guard rows_start (.Preceding 2) 7 6 10 == 6     -- clipped to the partition start
#guard rows_start .CurrentRow 4 0 10 == 4
#guard rows_start (.Following 3) 8 0 10 == 10    -- (8 + 3).min(10)
#guard rows_start .UnboundedFollowing 8 0 10 == 0   -- designated default of the unreachable arm
#guard rows_start_reachable .UnboundedFollowing == false
#guard rows_start_reachable (.Following 3) == true
#guard rows_start_reachable .UnboundedPreceding == true
#guard rows_end .CurrentRow 4 0 10 == 5
#guard rows_end (.Preceding 1) 4 0 10 == 4       -- (4 + 1).saturating_sub(1).max(0)
#guard rows_end (.Following 100) 4 0 10 == 10
#guard rows_end .UnboundedFollowing 4 0 10 == 10
#guard rows_end_reachable .UnboundedPreceding == false
#guard rows_end_reachable .CurrentRow == true
#guard frame_clip 2 1 0 10 == (2, 2)             -- empty frame: end pulled up to start
#guard frame_clip 0 15 3 10 == (3, 10)
-- since the saturating fix (2f0b366 "ROWS frame with a huge FOLLOWING offset saturates") the frame arithmetic has no
-- range side condition left: in range for every usize offset
example : rows_start_inRange (.Following 1) Rs.USIZE_MAX 0 10 := by
  simp [rows_start_inRange]
#guard rows_start (.Following 1) 18446744073709551615 0 10 == 10
end

/-! ## Compiled -/
section
open Compiled
#guard CHUNK == 1024
#guard MAX_REGS == 24
#guard Cmp.apply .Lt (1 : Int) 2 == true
#guard Cmp.apply .Ge (1 : Int) 2 == false
#guard Cmp.apply .Ne (2 : Int) 2 == false
#guard Cmp.apply .Eq IQE.F64.nan IQE.F64.nan == false
#guard Cmp.apply .Ne IQE.F64.nan IQE.F64.nan == true
#guard Cmp.apply .Le IQE.F64.negZero IQE.F64.posZero == true
end

/-! ## FrontDoor -/
section
open FrontDoor
/-- `Except` has no `BEq`: compare through a pair -/
def res (e : Except String DistMode) : Option DistMode × String :=
  match e with | .ok m => (some m, "") | .error s => (none, s)
#guard MAX_ENCODE_ROWS == 4096
#guard MAX_TICKET_BYTES == 1048576
#guard res (parse_mode "auto") == (some .Auto, "")
#guard res (parse_mode "force") == (some .Force, "")
#guard res (parse_mode "off") == (some .Off, "")          -- Flight accepts "off" …
#guard res (parse_value "off") == (none, "other")   -- … the HTTP query string does not
#guard res (parse_value "yes") == (some .Force, "")
#guard res (parse_value "local") == (some .Off, "")
#guard res (parse_value "auto") == (some .Auto, "")
#guard res (parse_mode "AUTO") == (none, "other")
example : parse_value "0" = .ok .Off := by rfl
example : res (parse_mode "off") = (some .Off, "") := by decide
end

/-! ## OptGates (C03): statistics gates of the optimizer rules -/
section
open IQE.Gen.OptGates
-- is_unique_key: null_count == Some(0) && ndv_est >= row_count
#guard unique_key_gate (some 0) (some 3) 3 == true
#guard unique_key_gate (some 0) (some 2) 3 == false
#guard unique_key_gate (some 1) (some 3) 3 == false
#guard unique_key_gate none (some 3) 3 == false
#guard unique_key_gate (some 0) none 3 == false
-- ndv_est = min(non_null, max.abs_diff(min).saturating_add(1)) when max >= min
#guard ndv_est_int (some 1) (some 5) 3 == some 3
#guard ndv_est_int (some 1) (some 2) 3 == some 2
#guard ndv_est_int (some 5) (some 1) 3 == none
#guard ndv_est_int (some 1) none 3 == none
#guard ndv_est_int (some (-9223372036854775808)) (some 9223372036854775807) 7 == some 7
-- K = next power of two above the second key's maximum
#guard pj_k 3 == some 4
#guard pj_k 4 == some 8
#guard pj_k 0 == some 1
#guard pj_k 18446744073709551614 == none
#guard pg_k 7 == 8
#guard ea_k 8 == 16
-- max1 * K + max2 > i64::MAX
#guard pj_overflow 1 4 3 == false
#guard pj_overflow 4611686018427387904 4 0 == true
#guard pj_overflow 2305843009213693951 4 3 == false
#guard pg_negative 0 (-1) == true
#guard ea_negative 0 0 == false
end

/-! ## AggState (C21): per-variant arms of morsel AccumulatorState::{merge, finalize} -/
section
open IQE.Gen.AggState
-- `*a += b`
#guard merge_count 2 3 == AccumulatorState.Count 5
-- `*a += b; *sa |= *sb`
#guard merge_sum_int 1 false 2 true == AccumulatorState.SumInt 3 true
#guard merge_sum_int 1 false 2 false == AccumulatorState.SumInt 3 false
-- float `+` is the parameter: here "keep the left operand"
#guard merge_sum IQE.F64.posZero false IQE.F64.nan true (fun a _ => a) == AccumulatorState.Sum IQE.F64.posZero true
#guard merge_avg IQE.F64.posZero 2 IQE.F64.posZero 3 (fun a _ => a) == AccumulatorState.Avg IQE.F64.posZero 5
-- MIN: `if let Some(b) = b { match a { None => a = b, Some(a_val) => if cmp(b, a) == Less { a = b } } }`
#guard merge_min none (some (.Int64 3)) (fun _ _ => .gt) == AccumulatorState.Min (some (.Int64 3))
#guard merge_min (some (.Int64 5)) (some (.Int64 3)) (fun _ _ => .lt) == AccumulatorState.Min (some (.Int64 3))
#guard merge_min (some (.Int64 5)) (some (.Int64 3)) (fun _ _ => .eq) == AccumulatorState.Min (some (.Int64 5))
#guard merge_min (some (.Int64 5)) none (fun _ _ => .lt) == AccumulatorState.Min (some (.Int64 5))
#guard merge_max (some (.Int64 5)) (some (.Int64 7)) (fun _ _ => .gt) == AccumulatorState.Max (some (.Int64 7))
#guard merge_max (some (.Int64 5)) (some (.Int64 7)) (fun _ _ => .lt) == AccumulatorState.Max (some (.Int64 5))
-- finalize
#guard finalize_count 4 == ScalarValue.Int64 4
#guard finalize_sum_int 9 false == ScalarValue.Null
#guard finalize_sum_int 9 true == ScalarValue.Int64 9
#guard finalize_sum IQE.F64.posZero false == ScalarValue.Null
#guard finalize_avg IQE.F64.posZero 0 (fun _ => IQE.F64.nan) (fun a _ => a) == ScalarValue.Null
#guard finalize_avg IQE.F64.posZero 2 (fun _ => IQE.F64.nan) (fun _ b => b) == ScalarValue.Float64 IQE.F64.nan
#guard finalize_min none == ScalarValue.Null
#guard finalize_max (some (.Utf8 ⟨[0x61]⟩)) == ScalarValue.Utf8 ⟨[0x61]⟩
#guard merge_arms.length == 11 && merge_arms.getLast? == some "_"
#guard finalize_arms.length == 10
example : ¬ merge_count_inRange 9223372036854775807 1 := by
  simp [merge_count_inRange, Id.run, pure, Rs.I64_MAX, Rs.I64_MIN]
end

/-! ## Coerce (C30): executor and planner coercion tables -/
section
open IQE.Gen.Coerce
def okTy : Except String DataType → Option DataType | .ok t => some t | .error _ => none
#guard okTy (exec_coerce .Int32 .Int32) == some .Int32          -- guard arm `(a, b) if a == b`
#guard okTy (exec_coerce .Int16 .Int8) == some .Int32
#guard okTy (exec_coerce .Int8 .Float32) == some .Float64
#guard okTy (exec_coerce .Utf8 .Date32) == some .Date32
#guard okTy (exec_coerce .Boolean .Date32) == none
#guard okTy (exec_coerce (.Decimal128 10 2) (.Decimal128 10 2)) == some (.Decimal128 10 2)
#guard plan_coerce .Int32 .Int32 == .Int32
#guard plan_coerce .Int16 .Int8 == .Int32
#guard plan_coerce (.Decimal128 10 2) .Int8 == .Decimal128 38 10
#guard plan_coerce .Utf8 .Utf8 == .Float64
end

/-! ## PruningInt (C05): the exact-integer "definitely" table -/
section
open IQE.Gen.PruningInt
#guard definite_table_int .Lt 1 5 6 == true
#guard definite_table_int .Lt 1 5 5 == false
#guard definite_table_int .LtEq 1 5 5 == true
#guard definite_table_int .Gt 1 5 0 == true
#guard definite_table_int .GtEq 1 5 1 == true
#guard definite_table_int .Eq 4 4 4 == true
#guard definite_table_int .Eq 4 5 4 == false
#guard definite_table_int .NotEq 1 5 6 == true
#guard definite_table_int .NotEq 1 5 3 == false
#guard definite_table_int .Or 1 5 3 == false
#guard definite_table_int .LtEq 5 9007199254740993 9007199254740992 == false
end

/-! ## MembershipGen (C15): record_up / record_down steps -/
section
open IQE.Gen.MembershipGen
#guard up_was_down .Unknown && up_was_down .Down && !up_was_down .Up
#guard down_was_up .Up && !down_was_up .Down && !down_was_up .Unknown
#guard up_status == .Up && down_status == .Down && up_failures == 0
#guard down_failures 0 == 1 && down_failures 4294967295 == 4294967295 && down_failures 4294967294 == 4294967295
#guard up_generation 7 == 8 && down_generation 0 == 1
end
