//! iqe-translate — Rust → Lean 4 translator for small loop-free decision functions.
//!
//!     iqe-translate --repo /repo --items items.json --out /verif/lean/IQE/Gen
//!
//! Parses the named source files with `syn`, translates every item listed in
//! `items.json` and writes one Lean file per output module (`<Module>.lean`,
//! namespace `IQE.Gen.<Module>`, targeting the hand-written prelude
//! `IQE.Core.Rs`) plus `manifest.json`. An item that cannot be translated never
//! aborts the run: it is left out of the Lean output (a `-- FAILED:` comment
//! takes its place), marked `"fail"` in the manifest, and the exit code is 3
//! (0 when every item translated, 2 for usage / configuration errors).
//! Output is deterministic: identical sources give byte-identical files.
//!
//! # Supported subset
//!
//! Types: all Rust integer types → `Int`; `bool` → `Bool`; `f64` → `IQE.F64`;
//! `&str`/`String` → `Rs.Str`, or Lean `String` when the value is the scrutinee
//! of a `match` on string literals; `Option<T>` → `Option T`; `Result<T, E>` →
//! `Except String T` (the error payload is replaced by a fixed string naming the
//! match arm that produced it); tuples; enums / structs translated in the same
//! run; config `opaque` types (a Lean type name, or `null` for an abstract type
//! variable); a type parameter `T: PartialOrd` → `{T : Type} [Rs.Cmp T]`.
//! References, `*x`, `&x`, `.clone()`, `.as_str()`, `.as_ref()`, `.copied()` are erased.
//!
//! Items: `enum` → `inductive … deriving DecidableEq, Repr, Inhabited`;
//! `struct` → `structure` restricted to the configured fields, plus
//! `<S>.inRange`; `const` → `def NAME : Int := <expr kept structurally>`
//! (no range condition: rustc rejects overflowing constant expressions);
//! `fn` / method → `def f`, `def f_inRange : Prop`, `def f_argsInRange : Prop`
//! (and `def f_reachable : Bool` when the body contains `unreachable!()`);
//! expression *slices* (one expression inside a larger function selected by a
//! structural locator; its free variables become parameters).
//! Items are emitted in `items.json` order and may call only items listed earlier.
//! Further item kinds: `arm` — ONE arm of a `match` (`locate` selects the match, `arm` is the pattern text,
//! `scrutinee` the Rust type of the scrutinee): the variables bound by the pattern become the parameters; a pure
//! body is an expression, a body that assigns through the pattern's `&mut` bindings (`*a += b`) becomes an
//! `Id.run do` block that returns the matched value of tuple component `state` rebuilt from the updated
//! bindings (guards fail). `arms` — the patterns (+ guards) of a `match` in source order as a `List String`
//! (pins the dispatch order the per-arm items do not see). `extern_enum` — an enum of an external crate declared
//! in items.json (`variants` in Rust syntax, `aliases`). `enum` takes an optional `variants` restriction (a
//! pattern or expression naming an unlisted variant fails) and `aliases`; variants with named fields are
//! supported (`V { f: p, .. }` patterns become positional). `fn`/`method` take `"as"`: another Lean / manifest name.
//! Config (module or item): `ops` {"f64 +": param} float arithmetic as a function parameter; `calls`
//! {fn: {lean: param, ret: type}} an untranslated free function as a function parameter; `erase_calls` [path]
//! one-argument wrappers that are dropped (`OrderedFloat(x)`). `use Enum::*;` inside a body brings the variants
//! of a translated enum into scope; `std::cmp::Ordering::{Less,Equal,Greater}` → Lean `Ordering`; `|` `&` `|=` `&=`
//! on bools; statement-level `if let` in do-mode. Slice locator `{"assign": place}`: the value assigned to a place.
//!
//! Expressions: literals; paths; `! -`; `+ - * / % && || == != < <= > >=`;
//! `if/else`, `if let … else`; `match` over enums / tuples / literals / `_` /
//! bindings / top-level or-patterns / `Some None Ok Err`, with guards (a guarded
//! arm becomes `| p => if guard then body else REST`, REST = a match on the same
//! scrutinee over the unguarded arms before it and all arms after it; generated
//! files set `match.ignoreUnusedAlts` because REST may list unreachable arms);
//! `matches!(e, pat if guard)`; blocks with `let` (tuple destructuring,
//! shadowing); half-open ranges `a..b` (→ pair); `unreachable!()` in result
//! position (→ designated default `0`/`default`, tracked by `f_reachable`);
//! `Some(..) Ok(..) Err(..)`; calls of earlier translated functions; struct
//! field reads; the std methods `min max clamp saturating_sub saturating_add
//! div_ceil abs checked_add is_some is_none unwrap_or map_or map` plus per-item
//! `methods`. `as` between integer types is the identity on `Int` plus a range
//! side condition (omitted when every source value fits the target type); any
//! other cast needs an entry in the item's `casts` and becomes a function parameter.
//! Comparisons are always `Rs.Cmp.lt/le/eq`, `Rs.gt/ge/ne` (structural `==`/`!=`
//! on enums, options, tuples, strings). Unsigned `/ %` → `Rs.divU/remU`, signed →
//! `Rs.divI/remI`; undeterminable signedness fails the item.
//!
//! Control flow: pure `if`/`match`/`let` expressions where possible. A function
//! with early `return` or (for `&mut self`) field assignment becomes
//! `Id.run do` with one `let mut self_<field>` per assigned field; a `&mut self`
//! method returns `(newSelf, result)`. `let x = if … { …; return v; … } else { … };`
//! becomes the nested do-element `let x ← if … then … else …`.
//!
//! Range side conditions (`f_inRange`): for every `+ - *`, unary `-`, integer
//! cast, `abs`, `clamp` (`Rs.clampOk`), `/ % div_ceil` (divisor ≠ 0; signed: not
//! `MIN / -1`), configured method precondition and call of a translated function
//! (`g_inRange args`): `lo ≤ node ∧ node ≤ hi` for the node's Rust type, guarded
//! by the path condition (the proposition mirrors `if`/`match`/`let`/`&&`/`||`;
//! in do-mode it is a do-block of the same shape accumulating `ok`). Nodes whose
//! type could not be inferred are listed as `-- untyped arithmetic node: …`.
//!
//! Not supported (the item fails): loops, `?`, `let … else`, struct literals,
//! closures other than the argument of `map`/`map_or`, f64 arithmetic, bit
//! operations and shifts, signed saturating ops, nested or-patterns, range and
//! slice patterns, string literals as values, tuple field access, macros other
//! than `matches!`/`unreachable!` (`format!` only inside an erased `Err(…)`).

mod ir;
mod trans;

use quote::ToTokens;
use serde_json::{json, Value};
use std::collections::BTreeMap;
use std::path::{Path, PathBuf};
use syn::spanned::Spanned;
use syn::visit::{self, Visit};
use trans::{Cx, ItemCfg, MethodCfg, Registry, R};

const MARKER: &str = "-- GENERATED by iqe-translate from /repo — do not edit";

fn fnv1a(s: &str) -> String {
    let mut h: u64 = 0xcbf29ce484222325;
    for b in s.bytes() {
        h ^= b as u64;
        h = h.wrapping_mul(0x100000001b3);
    }
    format!("{:016x}", h)
}

// ---------------------------------------------------------------- source lookup

struct Sources {
    repo: PathBuf,
    files: BTreeMap<String, Result<syn::File, String>>,
}
impl Sources {
    fn get(&mut self, rel: &str) -> R<&syn::File> {
        if !self.files.contains_key(rel) {
            let p = self.repo.join(rel);
            let parsed = std::fs::read_to_string(&p)
                .map_err(|e| format!("cannot read {}: {}", rel, e))
                .and_then(|s| syn::parse_file(&s).map_err(|e| format!("cannot parse {}: {}", rel, e)));
            self.files.insert(rel.to_string(), parsed);
        }
        self.files[rel].as_ref().map_err(|e| e.clone())
    }
}

/// All items of a file, looking through inline modules.
fn all_items(items: &[syn::Item]) -> Vec<&syn::Item> {
    let mut out = vec![];
    for it in items {
        out.push(it);
        if let syn::Item::Mod(m) = it {
            if let Some((_, inner)) = &m.content {
                out.extend(all_items(inner));
            }
        }
    }
    out
}

fn find_fn<'a>(file: &'a syn::File, imp: Option<&str>, name: &str) -> R<(&'a syn::Signature, &'a syn::Block, String, proc_macro2::Span)> {
    for it in all_items(&file.items) {
        match (it, imp) {
            (syn::Item::Fn(f), None) if f.sig.ident == name => {
                return Ok((&f.sig, &f.block, f.to_token_stream().to_string(), f.span()));
            }
            (syn::Item::Impl(i), Some(ty)) if i.trait_.is_none() && type_name(&i.self_ty) == ty => {
                for ii in &i.items {
                    if let syn::ImplItem::Fn(f) = ii {
                        if f.sig.ident == name {
                            return Ok((&f.sig, &f.block, f.to_token_stream().to_string(), f.span()));
                        }
                    }
                }
            }
            _ => {}
        }
    }
    Err(match imp {
        Some(t) => format!("method `{}::{}` not found", t, name),
        None => format!("fn `{}` not found", name),
    })
}

fn type_name(t: &syn::Type) -> String {
    match t {
        syn::Type::Path(p) => p.path.segments.last().map(|s| s.ident.to_string()).unwrap_or_default(),
        _ => String::new(),
    }
}

// ---------------------------------------------------------------- slice locators

enum Loc {
    Let(String),
    Match(String),
    Return,
    IfCond,
    /// right-hand side of an assignment to this place (`x op= e` yields `x op e`)
    Assign(String),
}
struct Finder {
    loc: Loc,
    hits: Vec<syn::Expr>,
}
fn squash(s: &str) -> String {
    s.chars().filter(|c| !c.is_whitespace()).collect()
}
impl<'a> Visit<'a> for Finder {
    fn visit_local(&mut self, l: &'a syn::Local) {
        if let Loc::Let(name) = &self.loc {
            let mut p = &l.pat;
            if let syn::Pat::Type(t) = p {
                p = &t.pat;
            }
            if let (syn::Pat::Ident(i), Some(init)) = (p, &l.init) {
                if i.ident == name {
                    self.hits.push((*init.expr).clone());
                }
            }
        }
        visit::visit_local(self, l);
    }
    fn visit_expr_match(&mut self, m: &'a syn::ExprMatch) {
        if let Loc::Match(s) = &self.loc {
            if squash(&m.expr.to_token_stream().to_string()) == squash(s) {
                self.hits.push(syn::Expr::Match(m.clone()));
            }
        }
        visit::visit_expr_match(self, m);
    }
    fn visit_expr_if(&mut self, i: &'a syn::ExprIf) {
        if let Loc::IfCond = &self.loc {
            // `if let` conditions are patterns, not expressions to translate
            if !matches!(&*i.cond, syn::Expr::Let(_)) {
                self.hits.push((*i.cond).clone());
            }
        }
        visit::visit_expr_if(self, i);
    }
    fn visit_expr_assign(&mut self, a: &'a syn::ExprAssign) {
        if let Loc::Assign(s) = &self.loc {
            if squash(&a.left.to_token_stream().to_string()) == squash(s) {
                self.hits.push((*a.right).clone());
            }
        }
        visit::visit_expr_assign(self, a);
    }
    fn visit_expr_binary(&mut self, b: &'a syn::ExprBinary) {
        if let Loc::Assign(s) = &self.loc {
            let base = match &b.op {
                syn::BinOp::AddAssign(_) => Some(syn::BinOp::Add(Default::default())),
                syn::BinOp::SubAssign(_) => Some(syn::BinOp::Sub(Default::default())),
                syn::BinOp::MulAssign(_) => Some(syn::BinOp::Mul(Default::default())),
                _ => None,
            };
            if let Some(op) = base {
                if squash(&b.left.to_token_stream().to_string()) == squash(s) {
                    self.hits.push(syn::Expr::Binary(syn::ExprBinary {
                        attrs: vec![],
                        left: b.left.clone(),
                        op,
                        right: b.right.clone(),
                    }));
                }
            }
        }
        visit::visit_expr_binary(self, b);
    }
    fn visit_expr_return(&mut self, r: &'a syn::ExprReturn) {
        if let (Loc::Return, Some(e)) = (&self.loc, &r.expr) {
            self.hits.push((**e).clone());
        }
        visit::visit_expr_return(self, r);
    }
}

/// Resolve a structural locator inside a function body:
/// `{"let": name}` / `{"match": scrutinee text}` / `{"return": true}` / `{"if": true}` (the CONDITION of an
/// `if`, `if let` excluded) / `{"assign": place text}` (the value assigned to that place; `x += e` gives `x + e`)
/// (with optional `"nth"`, 0-based, in source order, searching nested blocks, loops and
/// closures), `{"tail_of": true}`; optional `"arg_of": "Ok"` then steps into a one-argument call; optional
/// `"peel": ["cast", "try", "paren", …]` then strips, in that order, an outer `e as T`, `e?`, `(e)`.
fn locate(body: &syn::Block, loc: &Value) -> R<syn::Expr> {
    let nth = loc.get("nth").and_then(|v| v.as_u64()).unwrap_or(0) as usize;
    let mut found = if loc.get("tail_of").and_then(|v| v.as_bool()) == Some(true) {
        match body.stmts.last() {
            Some(syn::Stmt::Expr(e, None)) => e.clone(),
            _ => return Err("locator tail_of: the function has no tail expression".into()),
        }
    } else {
        let (kind, what) = if let Some(n) = loc.get("let").and_then(|v| v.as_str()) {
            (Loc::Let(n.to_string()), format!("let {}", n))
        } else if let Some(s) = loc.get("match").and_then(|v| v.as_str()) {
            (Loc::Match(s.to_string()), format!("match {}", s))
        } else if loc.get("return").is_some() {
            (Loc::Return, "return".to_string())
        } else if loc.get("if").is_some() {
            (Loc::IfCond, "if".to_string())
        } else if let Some(s) = loc.get("assign").and_then(|v| v.as_str()) {
            (Loc::Assign(s.to_string()), format!("assignment to {}", s))
        } else {
            return Err(format!("unknown locator {}", loc));
        };
        let mut f = Finder { loc: kind, hits: vec![] };
        f.visit_block(body);
        if nth >= f.hits.len() {
            return Err(format!("locator `{}` #{} no longer resolves ({} candidates)", what, nth, f.hits.len()));
        }
        f.hits.swap_remove(nth)
    };
    if let Some(callee) = loc.get("arg_of").and_then(|v| v.as_str()) {
        found = match &found {
            syn::Expr::Call(c) if squash(&c.func.to_token_stream().to_string()) == callee && c.args.len() == 1 => {
                c.args[0].clone()
            }
            _ => return Err(format!("locator arg_of: the located expression is not `{}(…)`", callee)),
        };
    }
    if let Some(peels) = loc.get("peel").and_then(|v| v.as_array()) {
        for what in peels.iter().filter_map(|x| x.as_str()) {
            found = match (what, &found) {
                ("cast", syn::Expr::Cast(c)) => (*c.expr).clone(),
                ("try", syn::Expr::Try(t)) => (*t.expr).clone(),
                ("paren", syn::Expr::Paren(p)) => (*p.expr).clone(),
                _ => return Err(format!("locator peel: the located expression is not a `{}` expression", what)),
            };
        }
    }
    Ok(found)
}

// ---------------------------------------------------------------- configuration

fn str_of<'a>(v: &'a Value, key: &str) -> Option<&'a str> {
    v.get(key).and_then(|x| x.as_str())
}

fn str_list(v: &Value, key: &str) -> Vec<String> {
    v.get(key)
        .and_then(|x| x.as_array())
        .map(|a| a.iter().filter_map(|x| x.as_str().map(String::from)).collect())
        .unwrap_or_default()
}

fn extern_variants(item: &Value) -> R<Vec<syn::Variant>> {
    let mut out = vec![];
    for t in str_list(item, "variants") {
        out.push(syn::parse_str::<syn::Variant>(&t).map_err(|e| format!("extern_enum variant `{}`: {}", t, e))?);
    }
    if out.is_empty() {
        return Err("extern_enum without `variants`".into());
    }
    Ok(out)
}

fn variant_info(vs: &[&syn::Variant]) -> (Vec<(String, Vec<syn::Type>)>, BTreeMap<String, Vec<String>>) {
    let variants = vs.iter().map(|v| (v.ident.to_string(), v.fields.iter().map(|f| f.ty.clone()).collect())).collect();
    let mut names = BTreeMap::new();
    for v in vs {
        if let syn::Fields::Named(n) = &v.fields {
            names.insert(v.ident.to_string(), n.named.iter().filter_map(|f| f.ident.as_ref().map(|i| i.to_string())).collect());
        }
    }
    (variants, names)
}

/// Merge the `opaque` / `methods` / `casts` keys of `v` into `cfg`.
fn read_cfg(cfg: &mut ItemCfg, v: &Value) {
    match v.get("opaque") {
        Some(Value::Object(m)) => {
            for (k, x) in m {
                cfg.opaque.insert(k.clone(), x.as_str().filter(|s| !s.is_empty()).map(String::from));
            }
        }
        Some(Value::Array(a)) => {
            for x in a.iter().filter_map(|x| x.as_str()) {
                cfg.opaque.insert(x.to_string(), None);
            }
        }
        _ => {}
    }
    if let Some(Value::Object(m)) = v.get("methods") {
        for (k, x) in m {
            let mc = match x {
                Value::String(s) => MethodCfg { lean: s.clone(), ret: None, pre: None },
                _ => MethodCfg {
                    lean: str_of(x, "lean").unwrap_or_default().to_string(),
                    ret: str_of(x, "ret").map(String::from),
                    pre: str_of(x, "pre").map(String::from),
                },
            };
            cfg.methods.insert(k.clone(), mc);
        }
    }
    if let Some(Value::Object(m)) = v.get("ops") {
        for (k, x) in m {
            if let Some(s) = x.as_str() {
                cfg.ops.insert(k.clone(), s.to_string());
            }
        }
    }
    if let Some(Value::Object(m)) = v.get("calls") {
        for (k, x) in m {
            cfg.calls.insert(
                k.clone(),
                MethodCfg {
                    lean: str_of(x, "lean").unwrap_or_default().to_string(),
                    ret: str_of(x, "ret").map(String::from),
                    pre: None,
                },
            );
        }
    }
    if let Some(Value::Array(a)) = v.get("erase_calls") {
        for x in a.iter().filter_map(|x| x.as_str()) {
            cfg.erase_calls.insert(x.to_string());
        }
    }
    if let Some(Value::Object(m)) = v.get("casts") {
        for (k, x) in m {
            if let Some(s) = x.as_str() {
                cfg.casts.insert(k.clone(), s.to_string());
            }
        }
    }
}

// ---------------------------------------------------------------- per-item translation

struct Done {
    lean: String,
    defs: Vec<String>,
    deps: Vec<String>,
}
#[derive(Default)]
struct Meta {
    start: usize,
    end: usize,
    hash: String,
}

fn set_meta(meta: &mut Meta, span: proc_macro2::Span, text: &str) {
    meta.start = span.start().line;
    meta.end = span.end().line;
    meta.hash = fnv1a(text);
}

fn translate_item(src: &mut Sources, reg: &mut Registry, module: &str, mcfg: &ItemCfg, item: &Value, meta: &mut Meta) -> R<Done> {
    let kind = str_of(item, "kind").ok_or("item without `kind`")?;
    let file_rel = str_of(item, "file").ok_or("item without `file`")?.to_string();
    let name = str_of(item, "name").ok_or("item without `name`")?.to_string();
    let imp = str_of(item, "impl").map(String::from);
    let mut cfg = mcfg.clone();
    read_cfg(&mut cfg, item);
    let file = src.get(&file_rel)?;
    let reg_ro: &Registry = reg;
    let mut cx = Cx::new(reg_ro, module, &cfg, imp.clone());
    let where_ = |a: usize, b: usize| format!("Rust: `{}` lines {}–{}", file_rel, a, b);
    let mut new_fn: Option<(String, trans::FnInfo)> = None;
    let (lean, defs) = match kind {
        "enum" => {
            let e = all_items(&file.items)
                .into_iter()
                .find_map(|i| match i {
                    syn::Item::Enum(e) if e.ident == name => Some(e),
                    _ => None,
                })
                .ok_or(format!("enum `{}` not found", name))?;
            set_meta(meta, e.span(), &e.to_token_stream().to_string());
            let only = str_list(item, "variants");
            trans::translate_enum(&mut cx, &format!("{} enum `{}`", where_(meta.start, meta.end), name), e, &only)?
        }
        "extern_enum" => {
            let vs = extern_variants(item)?;
            let text = str_list(item, "variants").join(" | ");
            meta.hash = fnv1a(&text);
            let doc = format!("external enum `{}` as declared in items.json (`{}`; only the listed variants)", name, file_rel);
            trans::translate_extern_enum(&mut cx, &name, &doc, &vs)?
        }
        "struct" => {
            let s = all_items(&file.items)
                .into_iter()
                .find_map(|i| match i {
                    syn::Item::Struct(s) if s.ident == name => Some(s),
                    _ => None,
                })
                .ok_or(format!("struct `{}` not found", name))?;
            set_meta(meta, s.span(), &s.to_token_stream().to_string());
            let kept = reg_ro.structs.get(&name).map(|s| s.kept.clone()).unwrap_or_default();
            trans::translate_struct(&mut cx, &format!("{} struct `{}` (only the listed fields)", where_(meta.start, meta.end), name), s, &kept)?
        }
        "const" => {
            let c = all_items(&file.items)
                .into_iter()
                .find_map(|i| match i {
                    syn::Item::Const(c) if c.ident == name => Some(c),
                    _ => None,
                })
                .ok_or(format!("const `{}` not found", name))?;
            set_meta(meta, c.span(), &c.to_token_stream().to_string());
            trans::translate_const(&mut cx, &name, &format!("{} const `{}`", where_(meta.start, meta.end), name), c)?
        }
        "fn" | "method" => {
            if kind == "method" && imp.is_none() {
                return Err("method item without `impl`".into());
            }
            let (sig, body, text, span) = find_fn(file, imp.as_deref(), &name)?;
            set_meta(meta, span, &text);
            // `"as"`: another Lean name for the definition (two functions of the same Rust name in one module)
            let lean_name = match (str_of(item, "as"), &imp) {
                (Some(a), _) => a.to_string(),
                (None, Some(t)) => format!("{}.{}", t, name),
                (None, None) => name.clone(),
            };
            let key = match (str_of(item, "as"), &imp) {
                (Some(a), _) => a.to_string(),
                (None, Some(t)) => format!("{}::{}", t, name),
                (None, None) => name.clone(),
            };
            let doc = match str_of(item, "as") {
                Some(_) => format!("{} fn `{}` (as `{}`)", where_(meta.start, meta.end), name, key),
                None => format!("{} fn `{}`", where_(meta.start, meta.end), key),
            };
            let out = trans::translate_fn(&mut cx, &lean_name, &doc, sig, body)?;
            new_fn = Some((key, out.info));
            (out.lean, out.defs)
        }
        "slice" => {
            let fn_name = str_of(item, "fn").ok_or("slice without `fn`")?;
            let (_, body, _, _) = find_fn(file, imp.as_deref(), fn_name)?;
            let loc = item.get("locate").ok_or("slice without `locate`")?;
            let expr = locate(body, loc)?;
            set_meta(meta, expr.span(), &expr.to_token_stream().to_string());
            let mut params = vec![];
            for p in item.get("params").and_then(|v| v.as_array()).cloned().unwrap_or_default() {
                let a = p.as_array().ok_or("slice `params` entries must be arrays")?;
                let lean = a.first().and_then(|x| x.as_str()).ok_or("slice param without name")?.to_string();
                let ty = a.get(1).and_then(|x| x.as_str()).unwrap_or("Int").to_string();
                let path = a.get(2).and_then(|x| x.as_str()).unwrap_or(&lean).to_string();
                params.push((lean, ty, path));
            }
            let doc = format!("{} expression `{}` inside fn `{}`", where_(meta.start, meta.end), loc, fn_name);
            let out = trans::translate_slice(&mut cx, &name, &doc, &expr, &params)?;
            new_fn = Some((name.clone(), out.info));
            (out.lean, out.defs)
        }
        "arm" | "arms" => {
            let fn_name = str_of(item, "fn").ok_or("arm without `fn`")?;
            let (_, body, _, _) = find_fn(file, imp.as_deref(), fn_name)?;
            let loc = item.get("locate").ok_or("arm without `locate`")?;
            let syn::Expr::Match(m) = locate(body, loc)? else {
                return Err("arm: the locator does not select a `match`".into());
            };
            if kind == "arms" {
                set_meta(meta, m.span(), &m.to_token_stream().to_string());
                let doc = format!("{} arm patterns, in order, of `match {}` inside fn `{}`", where_(meta.start, meta.end),
                    m.expr.to_token_stream(), fn_name);
                trans::translate_arm_list(&name, &doc, &m)
            } else {
                let want = squash(str_of(item, "arm").ok_or("arm without `arm` (the pattern text)")?);
                let hits: Vec<&syn::Arm> = m.arms.iter().filter(|a| squash(&a.pat.to_token_stream().to_string()) == want).collect();
                if hits.len() != 1 {
                    return Err(format!("arm `{}` no longer resolves ({} candidates)", want, hits.len()));
                }
                let arm = hits[0];
                set_meta(meta, arm.span(), &arm.to_token_stream().to_string());
                let sty: syn::Type = syn::parse_str(str_of(item, "scrutinee").ok_or("arm without `scrutinee` (its Rust type)")?)
                    .map_err(|e| format!("arm `scrutinee`: {}", e))?;
                let state = item.get("state").and_then(|v| v.as_u64()).map(|v| v as usize);
                let doc = format!("{} arm `{}` of `match {}` inside fn `{}`", where_(meta.start, meta.end),
                    arm.pat.to_token_stream(), m.expr.to_token_stream(), fn_name);
                let out = trans::translate_arm(&mut cx, &name, &doc, arm, &sty, state)?;
                new_fn = Some((name.clone(), out.info));
                (out.lean, out.defs)
            }
        }
        k => return Err(format!("unknown item kind `{}`", k)),
    };
    let deps = cx.deps.iter().cloned().collect();
    if let Some((k, info)) = new_fn {
        reg.fns.insert(k, info);
    }
    Ok(Done { lean, defs, deps })
}

/// Record enums / structs / consts before translating anything, so that types can refer to them.
fn prepass(src: &mut Sources, reg: &mut Registry, modules: &[Value]) {
    for m in modules {
        let module = str_of(m, "name").unwrap_or_default().to_string();
        for item in m.get("items").and_then(|v| v.as_array()).cloned().unwrap_or_default() {
            let (Some(kind), Some(file), Some(name)) = (str_of(&item, "kind"), str_of(&item, "file"), str_of(&item, "name")) else {
                continue;
            };
            if kind == "extern_enum" {
                if let Ok(vs) = extern_variants(&item) {
                    let (variants, field_names) = variant_info(&vs.iter().collect::<Vec<_>>());
                    reg.enums.insert(name.to_string(), trans::EnumInfo { module: module.clone(), variants, field_names });
                    for a in str_list(&item, "aliases") {
                        reg.aliases.insert(a, name.to_string());
                    }
                }
                continue;
            }
            let Ok(f) = src.get(file) else { continue };
            for it in all_items(&f.items) {
                match (kind, it) {
                    ("enum", syn::Item::Enum(e)) if e.ident == name => {
                        let only = str_list(&item, "variants");
                        let vs: Vec<&syn::Variant> =
                            e.variants.iter().filter(|v| only.is_empty() || only.iter().any(|o| v.ident == o)).collect();
                        let (variants, field_names) = variant_info(&vs);
                        reg.enums.insert(name.to_string(), trans::EnumInfo { module: module.clone(), variants, field_names });
                        for a in str_list(&item, "aliases") {
                            reg.aliases.insert(a, name.to_string());
                        }
                    }
                    ("struct", syn::Item::Struct(s)) if s.ident == name => {
                        let fields = s
                            .fields
                            .iter()
                            .filter_map(|f| f.ident.as_ref().map(|i| (i.to_string(), f.ty.clone())))
                            .collect();
                        let kept = item
                            .get("fields")
                            .and_then(|v| v.as_array())
                            .map(|a| a.iter().filter_map(|x| x.as_str().map(String::from)).collect())
                            .unwrap_or_default();
                        reg.structs.insert(name.to_string(), trans::StructInfo { module: module.clone(), fields, kept });
                    }
                    ("const", syn::Item::Const(c)) if c.ident == name => {
                        reg.consts.insert(name.to_string(), (module.clone(), (*c.ty).clone()));
                    }
                    _ => {}
                }
            }
        }
    }
}

// ---------------------------------------------------------------- main

fn usage() -> ! {
    eprintln!("usage: iqe-translate --repo <dir> --items <items.json> --out <dir>");
    std::process::exit(2);
}

fn main() {
    let args: Vec<String> = std::env::args().collect();
    let opt = |k: &str| args.iter().position(|a| a == k).and_then(|i| args.get(i + 1)).cloned();
    let (Some(repo), Some(items), Some(out)) = (opt("--repo"), opt("--items"), opt("--out")) else { usage() };
    let cfg_text = std::fs::read_to_string(&items).unwrap_or_else(|e| {
        eprintln!("cannot read {}: {}", items, e);
        std::process::exit(2)
    });
    let cfg: Value = serde_json::from_str(&cfg_text).unwrap_or_else(|e| {
        eprintln!("cannot parse {}: {}", items, e);
        std::process::exit(2)
    });
    let modules = cfg.get("modules").and_then(|v| v.as_array()).cloned().unwrap_or_else(|| {
        eprintln!("{}: no `modules` array", items);
        std::process::exit(2)
    });
    let out_dir = Path::new(&out);
    std::fs::create_dir_all(out_dir).expect("create output directory");

    let mut src = Sources { repo: PathBuf::from(&repo), files: BTreeMap::new() };
    let mut reg = Registry::default();
    prepass(&mut src, &mut reg, &modules);

    let mut manifest = vec![];
    let mut failures = 0usize;
    let mut written = vec![];
    for m in &modules {
        let module = str_of(m, "name").unwrap_or_default().to_string();
        let mut mcfg = ItemCfg::default();
        read_cfg(&mut mcfg, m);
        let mut body = String::new();
        let mut deps: Vec<String> = vec![];
        for item in m.get("items").and_then(|v| v.as_array()).cloned().unwrap_or_default() {
            let name = str_of(&item, "name").unwrap_or("?").to_string();
            let shown = match (str_of(&item, "as"), str_of(&item, "impl")) {
                (Some(a), _) => a.to_string(),
                (None, Some(t)) => format!("{}::{}", t, name),
                (None, None) => name.clone(),
            };
            let mut meta = Meta::default();
            let res = translate_item(&mut src, &mut reg, &module, &mcfg, &item, &mut meta);
            let (status, reason, defs) = match res {
                Ok(d) => {
                    body.push_str(&d.lean);
                    body.push('\n');
                    deps.extend(d.deps);
                    ("ok", String::new(), d.defs)
                }
                Err(e) => {
                    failures += 1;
                    eprintln!("FAILED {}.{}: {}", module, shown, e);
                    body.push_str(&format!("-- FAILED: {}: {}\n\n", shown, e.replace('\n', " ")));
                    ("fail", e, vec![])
                }
            };
            manifest.push(json!({
                "module": module, "name": shown, "kind": str_of(&item, "kind").unwrap_or("?"),
                "file": str_of(&item, "file").unwrap_or("?"),
                "start_line": meta.start, "end_line": meta.end, "hash": meta.hash,
                "status": status, "reason": reason, "defs": defs,
            }));
        }
        deps.sort();
        deps.dedup();
        let mut text = format!("{}\nimport IQE.Core.Rs\n", MARKER);
        for d in &deps {
            text.push_str(&format!("import IQE.Gen.{}\n", d));
        }
        text.push_str("set_option linter.unusedVariables false\nset_option match.ignoreUnusedAlts true\n\n");
        text.push_str(&format!("namespace IQE.Gen.{}\n\n", module));
        if let Some(p) = str_of(m, "prelude") {
            text.push_str(p.trim_end());
            text.push_str("\n\n");
        }
        text.push_str(&body);
        text.push_str(&format!("end IQE.Gen.{}\n", module));
        let path = out_dir.join(format!("{}.lean", module));
        std::fs::write(&path, text).expect("write module");
        written.push(format!("{}.lean", module));
    }
    // drop generated modules of earlier runs that are no longer configured
    if let Ok(rd) = std::fs::read_dir(out_dir) {
        for e in rd.flatten() {
            let n = e.file_name().to_string_lossy().to_string();
            if n.ends_with(".lean") && !written.contains(&n) {
                let generated = std::fs::read_to_string(e.path()).map_or(false, |s| s.starts_with(MARKER));
                if generated {
                    let _ = std::fs::remove_file(e.path());
                }
            }
        }
    }
    let mf = json!({ "generator": "iqe-translate", "items": manifest });
    std::fs::write(out_dir.join("manifest.json"), serde_json::to_string_pretty(&mf).unwrap() + "\n").expect("write manifest");
    eprintln!("iqe-translate: {} item(s), {} failed", manifest.len(), failures);
    std::process::exit(if failures == 0 { 0 } else { 3 });
}
