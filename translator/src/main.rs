fn main(){}
