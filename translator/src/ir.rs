//! Lean-side intermediate representation: pure expressions (`L`), do-block
//! statements (`S`), their rendering to Lean text, and the derivation of the
//! `_inRange` side-condition proposition and the `_reachable` predicate.

/// A side condition attached to one arithmetic node.
#[derive(Clone, Debug)]
pub enum Cond {
    /// `lo ≤ node ∧ node ≤ hi`
    Range(String, String),
    /// divisor `≠ 0`
    NonZero(L),
    /// `Rs.clampOk lo hi`
    ClampOk(L, L),
    /// verbatim, already parenthesised proposition
    Raw(String),
}

/// Pure Lean expression.
#[derive(Clone, Debug)]
pub enum L {
    Atom(String),
    App(String, Vec<L>),
    Infix(&'static str, Box<L>, Box<L>),
    Not(Box<L>),
    Neg(Box<L>),
    Tuple(Vec<L>),
    Proj(Box<L>, String),
    If(Box<L>, Box<L>, Box<L>),
    /// scrutinee, arms (pattern text incl. `|` alternatives, body)
    Match(Box<L>, Vec<(String, L)>),
    /// binder text (may carry `: T`), value, body
    Let(String, Box<L>, Box<L>),
    Lam(String, Box<L>),
    /// a node that carries side conditions; renders as its inner expression
    Chk(Box<L>, Vec<Cond>),
    /// `unreachable!()`; renders as the designated default held inside
    Unreachable(String),
}

impl L {
    pub fn atom(s: impl Into<String>) -> L {
        L::Atom(s.into())
    }
    pub fn app(f: &str, args: Vec<L>) -> L {
        L::App(f.to_string(), args)
    }
    pub fn strip(&self) -> &L {
        match self {
            L::Chk(i, _) => i.strip(),
            o => o,
        }
    }
    fn is_ctl(&self) -> bool {
        matches!(self.strip(), L::If(..) | L::Match(..) | L::Let(..))
    }

    /// Single-line rendering.
    pub fn flat(&self) -> String {
        match self {
            L::Atom(s) | L::Unreachable(s) => s.clone(),
            L::App(f, args) => {
                let mut s = f.clone();
                for a in args {
                    s.push(' ');
                    s.push_str(&a.arg());
                }
                s
            }
            L::Infix(op, a, b) => {
                // + * && || are left-associative in Lean: no parentheses needed on a same-op left operand
                let left = match a.strip() {
                    L::Infix(o2, ..) if o2 == op && matches!(*op, "+" | "*" | "&&" | "||") => a.flat(),
                    _ => a.arg(),
                };
                format!("{} {} {}", left, op, b.arg())
            }
            L::Not(a) => format!("!{}", a.arg()),
            L::Neg(a) => format!("-{}", a.arg()),
            L::Tuple(v) => format!("({})", v.iter().map(|x| x.flat()).collect::<Vec<_>>().join(", ")),
            L::Proj(a, f) => format!("{}.{}", a.arg(), f),
            L::If(c, t, e) => format!("if {} then {} else {}", c.flat(), t.flat(), e.flat()),
            L::Match(s, arms) => {
                let mut out = format!("match {} with", s.flat());
                for (p, b) in arms {
                    // nested control flow is parenthesised so it cannot swallow the following arms
                    let body = if b.is_ctl() { format!("({})", b.flat()) } else { b.flat() };
                    out.push_str(&format!(" | {} => {}", p, body));
                }
                out
            }
            L::Let(p, v, b) => format!("let {} := {}; {}", p, v.flat(), b.flat()),
            L::Lam(x, b) => format!("fun {} => {}", x, b.flat()),
            L::Chk(i, _) => i.flat(),
        }
    }

    /// Rendering usable as a function argument / operand.
    pub fn arg(&self) -> String {
        match self {
            L::Atom(s) | L::Unreachable(s) => {
                if s.contains(' ') && !s.starts_with('(') {
                    format!("({})", s)
                } else {
                    s.clone()
                }
            }
            L::Tuple(_) | L::Proj(..) => self.flat(),
            L::Chk(i, _) => i.arg(),
            _ => format!("({})", self.flat()),
        }
    }

    /// Multi-line rendering of an expression in result position.
    pub fn pretty(&self, ind: usize) -> String {
        let pad = " ".repeat(ind);
        match self {
            L::Chk(i, _) => i.pretty(ind),
            L::Let(p, v, b) => {
                let val = if v.is_ctl() { format!("({})", v.flat()) } else { v.flat() };
                format!("{}let {} := {}\n{}", pad, p, val, b.pretty(ind))
            }
            L::If(c, t, e) => format!(
                "{}if {} then\n{}\n{}else\n{}",
                pad,
                c.flat(),
                t.pretty(ind + 2),
                pad,
                e.pretty(ind + 2)
            ),
            L::Match(s, arms) => {
                let mut out = format!("{}match {} with", pad, s.flat());
                for (p, b) in arms {
                    if b.is_ctl() {
                        out.push_str(&format!("\n{}| {} => (\n{})", pad, p, b.pretty(ind + 4)));
                    } else {
                        out.push_str(&format!("\n{}| {} => {}", pad, p, b.flat()));
                    }
                }
                out
            }
            _ => format!("{}{}", pad, self.flat()),
        }
    }

    /// Side conditions of evaluating this expression, as self-delimited conjuncts.
    /// Control flow is mirrored so that each node is guarded by its path condition.
    pub fn conds(&self, out: &mut Vec<String>) {
        match self {
            L::Atom(_) | L::Unreachable(_) | L::Lam(..) => {}
            L::App(_, args) => {
                let opt = args.iter().find(|a| !matches!(a, L::Lam(..))).map(|a| a.arg());
                for a in args {
                    if let L::Lam(x, body) = a {
                        // closure of Option::map / map_or: evaluated only on `some x`
                        let mut sub = vec![];
                        body.conds(&mut sub);
                        if let (false, Some(o)) = (sub.is_empty(), &opt) {
                            out.push(format!("(∀ {}, {} = some {} → {})", x, o, x, conj(&sub)));
                        }
                    } else {
                        a.conds(out);
                    }
                }
            }
            L::Infix(op, a, b) => {
                a.conds(out);
                if *op == "&&" || *op == "||" {
                    // short-circuit: the right operand is evaluated only when the left did not decide
                    let mut sub = vec![];
                    b.conds(&mut sub);
                    if !sub.is_empty() {
                        let v = if *op == "&&" { "true" } else { "false" };
                        out.push(format!("({} = {} → {})", a.arg(), v, conj(&sub)));
                    }
                } else {
                    b.conds(out);
                }
            }
            L::Not(a) | L::Neg(a) | L::Proj(a, _) => a.conds(out),
            L::Tuple(v) => v.iter().for_each(|x| x.conds(out)),
            L::If(c, t, e) => {
                c.conds(out);
                let (mut st, mut se) = (vec![], vec![]);
                t.conds(&mut st);
                e.conds(&mut se);
                let mut parts = vec![];
                if !st.is_empty() {
                    parts.push(format!("({} = true → {})", c.arg(), conj(&st)));
                }
                if !se.is_empty() {
                    parts.push(format!("({} = false → {})", c.arg(), conj(&se)));
                }
                if !parts.is_empty() {
                    out.push(conj(&parts));
                }
            }
            L::Match(s, arms) => {
                s.conds(out);
                let subs: Vec<Vec<String>> = arms
                    .iter()
                    .map(|(_, b)| {
                        let mut v = vec![];
                        b.conds(&mut v);
                        v
                    })
                    .collect();
                if subs.iter().any(|v| !v.is_empty()) {
                    let mut m = format!("(match {} with", s.flat());
                    for ((p, _), sub) in arms.iter().zip(&subs) {
                        let body = if sub.is_empty() { "True".to_string() } else { conj(sub) };
                        m.push_str(&format!(" | {} => {}", p, body));
                    }
                    m.push(')');
                    out.push(m);
                }
            }
            L::Let(p, v, b) => {
                v.conds(out);
                let mut sub = vec![];
                b.conds(&mut sub);
                if !sub.is_empty() {
                    out.push(format!("(let {} := {}; {})", p, v.flat(), conj(&sub)));
                }
            }
            L::Chk(i, cs) => {
                i.conds(out);
                let me = i.arg();
                for c in cs {
                    out.push(match c {
                        Cond::Range(lo, hi) => format!("({} ≤ {} ∧ {} ≤ {})", lo, me, me, hi),
                        Cond::NonZero(d) => format!("({} ≠ 0)", d.arg()),
                        Cond::ClampOk(lo, hi) => format!("(Rs.clampOk {} {})", lo.arg(), hi.arg()),
                        Cond::Raw(s) => s.clone(),
                    });
                }
            }
        }
    }

    /// `Some(bool expr)` that is false exactly where evaluation hits `unreachable!()`
    /// in result position; `None` when every path is reachable.
    pub fn reach(&self) -> Option<String> {
        match self {
            L::Unreachable(_) => Some("false".into()),
            L::Chk(i, _) => i.reach(),
            L::If(c, t, e) => {
                let (rt, re) = (t.reach(), e.reach());
                if rt.is_none() && re.is_none() {
                    return None;
                }
                Some(format!(
                    "(if {} then {} else {})",
                    c.flat(),
                    rt.unwrap_or("true".into()),
                    re.unwrap_or("true".into())
                ))
            }
            L::Match(s, arms) => {
                let rs: Vec<Option<String>> = arms.iter().map(|(_, b)| b.reach()).collect();
                if rs.iter().all(|r| r.is_none()) {
                    return None;
                }
                let mut m = format!("(match {} with", s.flat());
                for ((p, _), r) in arms.iter().zip(rs) {
                    m.push_str(&format!(" | {} => {}", p, r.unwrap_or("true".into())));
                }
                m.push(')');
                Some(m)
            }
            L::Let(p, v, b) => b.reach().map(|r| format!("(let {} := {}; {})", p, v.flat(), r)),
            _ => None,
        }
    }

    /// Number of `unreachable!()` markers anywhere / in result position only.
    pub fn count_unreachable(&self, result_pos_only: bool) -> usize {
        let r = result_pos_only;
        match self {
            L::Unreachable(_) => 1,
            L::Atom(_) => 0,
            L::Chk(i, _) => i.count_unreachable(r),
            L::If(c, t, e) => {
                (if r { 0 } else { c.count_unreachable(r) }) + t.count_unreachable(r) + e.count_unreachable(r)
            }
            L::Match(s, arms) => {
                (if r { 0 } else { s.count_unreachable(r) })
                    + arms.iter().map(|(_, b)| b.count_unreachable(r)).sum::<usize>()
            }
            L::Let(_, v, b) => (if r { 0 } else { v.count_unreachable(r) }) + b.count_unreachable(r),
            _ if r => 0,
            L::App(_, a) | L::Tuple(a) => a.iter().map(|x| x.count_unreachable(r)).sum(),
            L::Infix(_, a, b) => a.count_unreachable(r) + b.count_unreachable(r),
            L::Not(a) | L::Neg(a) | L::Proj(a, _) | L::Lam(_, a) => a.count_unreachable(r),
        }
    }

    /// Give every result-position `unreachable!()` its designated default value.
    pub fn fill_unreachable(&mut self, dflt: &str) {
        match self {
            L::Unreachable(s) => *s = dflt.to_string(),
            L::Chk(i, _) => i.fill_unreachable(dflt),
            L::If(_, t, e) => {
                t.fill_unreachable(dflt);
                e.fill_unreachable(dflt);
            }
            L::Match(_, arms) => arms.iter_mut().for_each(|(_, b)| b.fill_unreachable(dflt)),
            L::Let(_, _, b) => b.fill_unreachable(dflt),
            _ => {}
        }
    }
}

/// Conjunction of self-delimited propositions (`True` when empty).
pub fn conj(v: &[String]) -> String {
    match v.len() {
        0 => "True".into(),
        1 => v[0].clone(),
        _ => format!("({})", v.join(" ∧ ")),
    }
}

/// Statement of an `Id.run do` block.
#[derive(Clone, Debug)]
pub enum S {
    Let { pat: String, mutable: bool, val: L },
    /// `let pat ← <If | Match>` whose branches end in `Value` (or leave by `Return`)
    LetDo { pat: String, body: Box<S> },
    Assign { name: String, val: L },
    If { c: L, t: Vec<S>, e: Vec<S> },
    Match { s: L, arms: Vec<(String, Vec<S>)> },
    Return(L),
    Value(L),
}

/// How a do-block is rendered: the function itself, or its `_inRange` mirror
/// (same control flow; accumulates the side conditions of every evaluated node in `ok`).
pub struct DoMode<'a> {
    pub check: bool,
    /// wraps a returned value (e.g. pairs it with the updated `self`)
    pub ret: &'a dyn Fn(&L) -> String,
}

fn push_ok(out: &mut String, pad: &str, m: &DoMode, ls: &[&L]) {
    if !m.check {
        return;
    }
    let mut cs = vec![];
    ls.iter().for_each(|l| l.conds(&mut cs));
    if !cs.is_empty() {
        out.push_str(&format!("{}ok := ok ∧ {}\n", pad, conj(&cs)));
    }
}

pub fn render_do(stmts: &[S], ind: usize, m: &DoMode) -> String {
    let pad = " ".repeat(ind);
    let mut out = String::new();
    if stmts.is_empty() {
        out.push_str(&format!("{}pure ()\n", pad));
    }
    for s in stmts {
        match s {
            S::Let { pat, mutable, val } => {
                push_ok(&mut out, &pad, m, &[val]);
                let kw = if *mutable { "let mut" } else { "let" };
                out.push_str(&format!("{}{} {} := {}\n", pad, kw, pat, val.flat()));
            }
            S::LetDo { pat, body } => {
                if let S::If { c, .. } | S::Match { s: c, .. } = &**body {
                    push_ok(&mut out, &pad, m, &[c]);
                }
                let inner = render_do_head(body, ind + 2, m);
                out.push_str(&format!("{}let {} ← {}", pad, pat, inner));
            }
            S::Assign { name, val } => {
                push_ok(&mut out, &pad, m, &[val]);
                out.push_str(&format!("{}{} := {}\n", pad, name, val.flat()));
            }
            S::If { c, .. } | S::Match { s: c, .. } => {
                push_ok(&mut out, &pad, m, &[c]);
                out.push_str(&format!("{}{}", pad, render_do_head(s, ind, m)));
            }
            S::Return(v) => {
                push_ok(&mut out, &pad, m, &[v]);
                if m.check {
                    out.push_str(&format!("{}return ok\n", pad));
                } else {
                    out.push_str(&format!("{}return {}\n", pad, (m.ret)(v)));
                }
            }
            S::Value(v) => {
                push_ok(&mut out, &pad, m, &[v]);
                out.push_str(&format!("{}pure {}\n", pad, v.arg()));
            }
        }
    }
    out
}

/// `if`/`match` do-element; the first line is not indented (the caller places it).
fn render_do_head(s: &S, ind: usize, m: &DoMode) -> String {
    let pad = " ".repeat(ind);
    match s {
        S::If { c, t, e } => {
            let mut out = format!("if {} then\n{}", c.flat(), render_do(t, ind + 2, m));
            if !e.is_empty() {
                out.push_str(&format!("{}else\n{}", pad, render_do(e, ind + 2, m)));
            }
            out
        }
        S::Match { s, arms } => {
            let mut out = format!("match {} with\n", s.flat());
            for (p, body) in arms {
                out.push_str(&format!("{}| {} =>\n{}", pad, p, render_do(body, ind + 4, m)));
            }
            out
        }
        _ => unreachable!("LetDo body is If or Match"),
    }
}
