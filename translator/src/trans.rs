//! syn AST → Lean IR.  See the top of `main.rs` for the supported subset.

use crate::ir::{render_do, Cond, DoMode, L, S};
use quote::ToTokens;
use std::collections::{BTreeMap, BTreeSet};
use syn::visit::{self, Visit};
use syn::{BinOp, Block, Expr, Lit, Member, Pat, Stmt, UnOp};

pub type R<T> = Result<T, String>;

// ---------------------------------------------------------------- types

#[derive(Clone, Copy, Debug, PartialEq)]
pub struct IntK {
    pub name: &'static str,
    pub signed: bool,
    pub bits: u32,
}

const INTS: [IntK; 12] = [
    IntK { name: "i8", signed: true, bits: 8 },
    IntK { name: "i16", signed: true, bits: 16 },
    IntK { name: "i32", signed: true, bits: 32 },
    IntK { name: "i64", signed: true, bits: 64 },
    IntK { name: "i128", signed: true, bits: 128 },
    IntK { name: "isize", signed: true, bits: 64 },
    IntK { name: "u8", signed: false, bits: 8 },
    IntK { name: "u16", signed: false, bits: 16 },
    IntK { name: "u32", signed: false, bits: 32 },
    IntK { name: "u64", signed: false, bits: 64 },
    IntK { name: "u128", signed: false, bits: 128 },
    IntK { name: "usize", signed: false, bits: 64 },
];

impl IntK {
    pub fn of(name: &str) -> Option<IntK> {
        INTS.iter().copied().find(|k| k.name == name)
    }
    /// Lean terms for the minimum and maximum of the Rust type (prelude names where they exist).
    pub fn range(&self) -> (String, String) {
        let hi = match self.name {
            "i32" => "Rs.I32_MAX".to_string(),
            "i64" | "isize" => "Rs.I64_MAX".into(),
            "u16" => "Rs.U16_MAX".into(),
            "u32" => "Rs.U32_MAX".into(),
            "u64" => "Rs.U64_MAX".into(),
            "usize" => "Rs.USIZE_MAX".into(),
            "u128" => "Rs.U128_MAX".into(),
            _ if self.signed => format!("((2:Int)^{} - 1)", self.bits - 1),
            _ => format!("((2:Int)^{} - 1)", self.bits),
        };
        let lo = match self.name {
            "i32" => "Rs.I32_MIN".to_string(),
            "i64" | "isize" => "Rs.I64_MIN".into(),
            _ if self.signed => format!("(-(2:Int)^{})", self.bits - 1),
            _ => "0".into(),
        };
        (lo, hi)
    }
    /// every value of `self` is a value of `to`
    fn fits_in(&self, to: &IntK) -> bool {
        match (self.signed, to.signed) {
            (false, false) | (true, true) => self.bits <= to.bits,
            (false, true) => self.bits < to.bits,
            (true, false) => false,
        }
    }
}

#[derive(Clone, Debug, PartialEq)]
pub enum Ty {
    /// `None`: an integer of unknown Rust type (unsuffixed literal, untyped slice parameter)
    Int(Option<IntK>),
    Bool,
    F64,
    /// `&str`/`String` compared by ordering → `Rs.Str`
    Str,
    /// `&str` matched against string literals → Lean `String`
    StrLit,
    Opt(Box<Ty>),
    /// `Result<T, _>` → `Except String T`
    Res(Box<Ty>),
    Tuple(Vec<Ty>),
    /// enum / struct translated in this run
    Named(String),
    /// config `opaque`: a concrete Lean type name
    Opaque(String),
    /// type parameter (`cmp`: carries a `PartialOrd` bound → `[Rs.Cmp T]`)
    Generic(String, bool),
    Never,
    Unknown,
}

fn unify(a: &Ty, b: &Ty) -> Ty {
    match (a, b) {
        (Ty::Unknown, x) | (Ty::Never, x) | (x, Ty::Unknown) | (x, Ty::Never) => x.clone(),
        (Ty::Int(None), Ty::Int(k)) | (Ty::Int(k), Ty::Int(None)) => Ty::Int(*k),
        (Ty::Opt(x), Ty::Opt(y)) => Ty::Opt(Box::new(unify(x, y))),
        (Ty::Res(x), Ty::Res(y)) => Ty::Res(Box::new(unify(x, y))),
        (Ty::Tuple(x), Ty::Tuple(y)) if x.len() == y.len() => {
            Ty::Tuple(x.iter().zip(y).map(|(p, q)| unify(p, q)).collect())
        }
        _ => a.clone(),
    }
}

// ---------------------------------------------------------------- registry and config

#[derive(Clone, Debug)]
pub struct EnumInfo {
    pub module: String,
    pub variants: Vec<(String, Vec<syn::Type>)>,
    /// variants with named fields: variant → field names in declaration order
    pub field_names: BTreeMap<String, Vec<String>>,
}
#[derive(Clone, Debug)]
pub struct StructInfo {
    pub module: String,
    pub fields: Vec<(String, syn::Type)>,
    pub kept: Vec<String>,
}
#[derive(Clone, Debug)]
pub struct FnInfo {
    pub module: String,
    pub lean: String,
    pub ret: Ty,
    pub trivial_in_range: bool,
    pub mut_self: bool,
    pub extra_params: usize,
}
/// Everything translatable that the run knows about, by Rust name
/// (`fn` names plain, methods as `Type::method`).
#[derive(Default)]
pub struct Registry {
    pub enums: BTreeMap<String, EnumInfo>,
    pub structs: BTreeMap<String, StructInfo>,
    pub consts: BTreeMap<String, (String, syn::Type)>,
    pub fns: BTreeMap<String, FnInfo>,
    /// other Rust names of a translated enum (`ArrowDataType` → `DataType`)
    pub aliases: BTreeMap<String, String>,
}

#[derive(Clone, Debug, Default)]
pub struct MethodCfg {
    pub lean: String,
    pub ret: Option<String>,
    pub pre: Option<String>,
}
#[derive(Clone, Debug, Default)]
pub struct ItemCfg {
    /// Rust type name → Lean type name (`None`: abstract type variable)
    pub opaque: BTreeMap<String, Option<String>>,
    pub methods: BTreeMap<String, MethodCfg>,
    /// `"i64 as f64"` → name of the extra function parameter
    pub casts: BTreeMap<String, String>,
    /// `"f64 +"` → name of the extra function parameter standing for that float operation
    pub ops: BTreeMap<String, String>,
    /// free function outside the subset → extra function parameter (`lean` = parameter name, `ret` = Rust type)
    pub calls: BTreeMap<String, MethodCfg>,
    /// one-argument wrapper calls that are erased (`ordered_float::OrderedFloat`)
    pub erase_calls: BTreeSet<String>,
}

const LEAN_RESERVED: &[&str] = &[
    "abbrev", "at", "axiom", "by", "calc", "catch", "class", "def", "deriving", "do", "else", "end", "example",
    "export", "extends", "finally", "for", "from", "fun", "have", "if", "import", "in", "inductive", "infix",
    "instance", "let", "macro", "match", "mut", "mutual", "namespace", "nomatch", "notation", "open", "partial",
    "private", "protected", "return", "section", "show", "structure", "syntax", "then", "theorem", "try",
    "universe", "unless", "unsafe", "using", "variable", "where", "with", "ok", "Type", "Prop", "Sort", "default",
    "some", "none", "pure", "true", "false",
];
/// Lean spelling of a Rust local (`ok` is reserved for the `_inRange` accumulator).
pub fn lean_ident(rust: &str) -> String {
    let r = rust.strip_prefix("r#").unwrap_or(rust);
    if LEAN_RESERVED.contains(&r) {
        format!("{}_", r)
    } else {
        r.to_string()
    }
}

fn toks(x: &impl ToTokens) -> String {
    x.to_token_stream().to_string()
}

// ---------------------------------------------------------------- pre-scans

/// Does the expression need `do` notation (early `return` or assignment outside closures)?
struct NeedsDo(bool);
impl<'a> Visit<'a> for NeedsDo {
    fn visit_expr_return(&mut self, _: &'a syn::ExprReturn) {
        self.0 = true;
    }
    fn visit_expr_assign(&mut self, _: &'a syn::ExprAssign) {
        self.0 = true;
    }
    fn visit_expr_binary(&mut self, b: &'a syn::ExprBinary) {
        if is_assign_op(&b.op) {
            self.0 = true;
        }
        visit::visit_expr_binary(self, b);
    }
    fn visit_expr_closure(&mut self, _: &'a syn::ExprClosure) {}
}
fn needs_do_expr(e: &Expr) -> bool {
    let mut v = NeedsDo(false);
    v.visit_expr(e);
    v.0
}
fn needs_do_block(b: &Block) -> bool {
    let mut v = NeedsDo(false);
    v.visit_block(b);
    v.0
}
fn is_assign_op(op: &BinOp) -> bool {
    assign_base(op).is_some()
}
fn assign_base(op: &BinOp) -> Option<BinOp> {
    Some(match op {
        BinOp::AddAssign(_) => BinOp::Add(Default::default()),
        BinOp::SubAssign(_) => BinOp::Sub(Default::default()),
        BinOp::MulAssign(_) => BinOp::Mul(Default::default()),
        BinOp::DivAssign(_) => BinOp::Div(Default::default()),
        BinOp::RemAssign(_) => BinOp::Rem(Default::default()),
        BinOp::BitOrAssign(_) => BinOp::BitOr(Default::default()),
        BinOp::BitAndAssign(_) => BinOp::BitAnd(Default::default()),
        BinOp::BitXorAssign(_) | BinOp::ShlAssign(_) | BinOp::ShrAssign(_) => BinOp::BitXor(Default::default()),
        _ => return None,
    })
}

/// `self.f` fields that are assigned, and identifiers matched against string literals.
#[derive(Default)]
struct Scan {
    mutated: BTreeSet<String>,
    strmatch: BTreeSet<String>,
}
impl<'a> Visit<'a> for Scan {
    fn visit_expr_assign(&mut self, a: &'a syn::ExprAssign) {
        if let Some(f) = self_field(&a.left) {
            self.mutated.insert(f);
        }
        visit::visit_expr_assign(self, a);
    }
    fn visit_expr_binary(&mut self, b: &'a syn::ExprBinary) {
        if is_assign_op(&b.op) {
            if let Some(f) = self_field(&b.left) {
                self.mutated.insert(f);
            }
        }
        visit::visit_expr_binary(self, b);
    }
    fn visit_expr_match(&mut self, m: &'a syn::ExprMatch) {
        let has_str = m.arms.iter().any(|a| toks(&a.pat).contains('"'));
        if let (true, Some(d)) = (has_str, dotted(&m.expr)) {
            self.strmatch.insert(d);
        }
        visit::visit_expr_match(self, m);
    }
}
fn self_field(e: &Expr) -> Option<String> {
    match dotted(e)?.strip_prefix("self.") {
        Some(f) if !f.contains('.') => Some(f.to_string()),
        _ => None,
    }
}
/// `a.b.c` (through references / derefs / parentheses) as text.
pub fn dotted(e: &Expr) -> Option<String> {
    match e {
        Expr::Path(p) if p.path.segments.len() == 1 => Some(p.path.segments[0].ident.to_string()),
        Expr::Field(f) => match &f.member {
            Member::Named(m) => Some(format!("{}.{}", dotted(&f.base)?, m)),
            // tuple member of a place expression (`bounds[2].1`): only ever used as the KEY of a slice parameter
            // binding (or a free slice variable); never translated structurally
            Member::Unnamed(i) => Some(format!("{}.{}", dotted(&f.base)?, i.index)),
        },
        // element of a place expression selected by an integer literal (`bounds[2]`), same remark
        Expr::Index(ix) => match &*ix.index {
            Expr::Lit(syn::ExprLit { lit: syn::Lit::Int(n), .. }) => Some(format!("{}[{}]", dotted(&ix.expr)?, n.base10_digits())),
            _ => None,
        },
        Expr::Reference(r) => dotted(&r.expr),
        Expr::Paren(p) => dotted(&p.expr),
        Expr::Group(g) => dotted(&g.expr),
        Expr::Unary(u) if matches!(u.op, UnOp::Deref(_)) => dotted(&u.expr),
        _ => None,
    }
}

// ---------------------------------------------------------------- translation context

struct Var {
    key: String,
    lean: String,
    ty: Ty,
}

pub struct Cx<'a> {
    pub reg: &'a Registry,
    pub module: &'a str,
    pub cfg: &'a ItemCfg,
    pub self_ty: Option<String>,
    generics: Vec<(String, bool)>,
    scopes: Vec<Vec<Var>>,
    mutated: BTreeSet<String>,
    strmatch: BTreeSet<String>,
    /// slice mode: unresolved names become parameters (rust text, lean name, type)
    slice_mode: bool,
    free: Vec<(String, String, Ty)>,
    cast_params: Vec<(String, String)>,
    untyped: Vec<String>,
    err_n: usize,
    arm_name: Option<String>,
    /// enums whose variants are in scope unqualified (`use DataType::*;` inside the translated body)
    globs: Vec<String>,
    pub deps: BTreeSet<String>,
}

/// The generated Lean text of one function-like item plus what callers need to know.
pub struct FnOut {
    pub lean: String,
    pub info: FnInfo,
    pub defs: Vec<String>,
}

impl<'a> Cx<'a> {
    pub fn new(reg: &'a Registry, module: &'a str, cfg: &'a ItemCfg, self_ty: Option<String>) -> Self {
        Cx {
            reg,
            module,
            cfg,
            self_ty,
            generics: vec![],
            scopes: vec![vec![]],
            mutated: Default::default(),
            strmatch: Default::default(),
            slice_mode: false,
            free: vec![],
            cast_params: vec![],
            untyped: vec![],
            err_n: 0,
            arm_name: None,
            globs: vec![],
            deps: Default::default(),
        }
    }

    fn qual(&mut self, name: &str, module: &str) -> String {
        if module == self.module {
            name.to_string()
        } else {
            self.deps.insert(module.to_string());
            format!("IQE.Gen.{}.{}", module, name)
        }
    }

    fn bind(&mut self, key: &str, lean: &str, ty: Ty) {
        self.scopes.last_mut().unwrap().push(Var { key: key.into(), lean: lean.into(), ty });
    }
    fn lookup(&self, key: &str) -> Option<(String, Ty)> {
        for sc in self.scopes.iter().rev() {
            for v in sc.iter().rev() {
                if v.key == key {
                    return Some((v.lean.clone(), v.ty.clone()));
                }
            }
        }
        None
    }

    // ------------------------------------------------------------ types

    pub fn ty(&mut self, t: &syn::Type) -> R<Ty> {
        match t {
            syn::Type::Reference(r) => self.ty(&r.elem),
            syn::Type::Paren(p) => self.ty(&p.elem),
            syn::Type::Group(g) => self.ty(&g.elem),
            syn::Type::Tuple(t) => Ok(Ty::Tuple(t.elems.iter().map(|e| self.ty(e)).collect::<R<_>>()?)),
            syn::Type::Path(p) => {
                let seg = p.path.segments.last().ok_or("empty type path")?;
                let name = seg.ident.to_string();
                let name = self.reg.aliases.get(&name).cloned().unwrap_or(name);
                let generic_arg = |i: usize| -> Option<&syn::Type> {
                    match &seg.arguments {
                        syn::PathArguments::AngleBracketed(a) => a.args.iter().nth(i).and_then(|g| match g {
                            syn::GenericArgument::Type(t) => Some(t),
                            _ => None,
                        }),
                        _ => None,
                    }
                };
                if let Some(k) = IntK::of(&name) {
                    return Ok(Ty::Int(Some(k)));
                }
                if let Some(o) = self.cfg.opaque.get(&name) {
                    return Ok(match o {
                        Some(lean) => Ty::Opaque(lean.clone()),
                        None => {
                            if !self.generics.iter().any(|g| g.0 == name) {
                                self.generics.push((name.clone(), false));
                            }
                            Ty::Generic(name, false)
                        }
                    });
                }
                if let Some(g) = self.generics.iter().find(|g| g.0 == name) {
                    return Ok(Ty::Generic(name, g.1));
                }
                match name.as_str() {
                    "bool" => Ok(Ty::Bool),
                    "f64" => Ok(Ty::F64),
                    "str" | "String" => Ok(Ty::Str),
                    "Int" => Ok(Ty::Int(None)),
                    "Option" => {
                        let a = generic_arg(0).ok_or("Option without argument")?;
                        Ok(Ty::Opt(Box::new(self.ty(a)?)))
                    }
                    "Result" => {
                        let a = generic_arg(0).ok_or("Result without argument")?;
                        Ok(Ty::Res(Box::new(self.ty(a)?)))
                    }
                    "Self" => self.self_ty.clone().map(Ty::Named).ok_or("`Self` outside an impl".into()),
                    _ if self.reg.enums.contains_key(&name) || self.reg.structs.contains_key(&name) => {
                        Ok(Ty::Named(name))
                    }
                    _ => Err(format!("unsupported type `{}`", toks(t))),
                }
            }
            _ => Err(format!("unsupported type `{}`", toks(t))),
        }
    }

    pub fn lean_ty(&mut self, t: &Ty) -> String {
        self.lean_ty_p(t, false)
    }
    fn lean_ty_p(&mut self, t: &Ty, paren: bool) -> String {
        let wrap = |s: String| if paren { format!("({})", s) } else { s };
        match t {
            Ty::Int(_) | Ty::Unknown | Ty::Never => "Int".into(),
            Ty::Bool => "Bool".into(),
            Ty::F64 => "IQE.F64".into(),
            Ty::Str => "Rs.Str".into(),
            Ty::StrLit => "String".into(),
            Ty::Opt(x) => wrap(format!("Option {}", self.lean_ty_p(x, true))),
            Ty::Res(x) => wrap(format!("Except String {}", self.lean_ty_p(x, true))),
            Ty::Tuple(v) => {
                format!("({})", v.iter().map(|x| self.lean_ty_p(x, false)).collect::<Vec<_>>().join(" × "))
            }
            Ty::Named(n) => {
                let m = self.reg.enums.get(n).map(|e| e.module.clone());
                let m = m.or_else(|| self.reg.structs.get(n).map(|s| s.module.clone()));
                match m {
                    Some(m) => self.qual(n, &m),
                    None => n.clone(),
                }
            }
            Ty::Opaque(l) => l.clone(),
            Ty::Generic(n, _) => n.clone(),
        }
    }

    fn field_ty(&mut self, strukt: &str, field: &str) -> R<Ty> {
        let info = self.reg.structs.get(strukt).ok_or(format!("`{}` is not a translated struct", strukt))?;
        if !info.kept.iter().any(|k| k == field) {
            return Err(format!("field `{}.{}` is not among the translated fields", strukt, field));
        }
        let t = info.fields.iter().find(|f| f.0 == field).map(|f| f.1.clone());
        self.ty(&t.ok_or(format!("no field `{}.{}`", strukt, field))?)
    }

    // ------------------------------------------------------------ patterns

    /// Translate a pattern against a scrutinee type, binding its variables. `top`: or-patterns allowed.
    fn pat(&mut self, p: &Pat, ty: &Ty, top: bool) -> R<String> {
        match p {
            Pat::Wild(_) => Ok("_".into()),
            Pat::Paren(x) => self.pat(&x.pat, ty, top),
            Pat::Reference(x) => self.pat(&x.pat, ty, top),
            Pat::Type(x) => {
                let t = self.ty(&x.ty)?;
                self.pat(&x.pat, &t, top)
            }
            Pat::Ident(i) if i.subpat.is_none() => {
                let name = i.ident.to_string();
                if name == "None" {
                    return Ok("none".into());
                }
                if name.chars().next().map_or(false, |c| c.is_uppercase()) {
                    if self.glob_enum_of(&name).is_some() {
                        let path: syn::Path = syn::parse_str(&name).map_err(|e| e.to_string())?;
                        let (l, payload) = self.variant(&path)?;
                        if !payload.is_empty() {
                            return Err(format!("pattern `{}`: variant used without its payload", name));
                        }
                        return Ok(l);
                    }
                    return Err(format!("pattern `{}`: matching on a constant or imported variant is outside the subset", name));
                }
                let lean = lean_ident(&name);
                self.bind(&name, &lean, ty.clone());
                Ok(lean)
            }
            Pat::Path(pp) => self.variant(&pp.path).map(|(l, _)| l),
            Pat::TupleStruct(ts) => {
                let head = toks(&ts.path).replace(' ', "");
                let one = |cx: &mut Self, inner: &Ty| -> R<String> {
                    if ts.elems.len() != 1 {
                        return Err(format!("`{}` pattern needs one argument", head));
                    }
                    let s = cx.pat(&ts.elems[0], inner, false)?;
                    Ok(if s.contains(' ') { format!("({})", s) } else { s })
                };
                match head.as_str() {
                    "Some" => {
                        let inner = if let Ty::Opt(x) = ty { (**x).clone() } else { Ty::Unknown };
                        Ok(format!("some {}", one(self, &inner)?))
                    }
                    "Ok" => {
                        let inner = if let Ty::Res(x) = ty { (**x).clone() } else { Ty::Unknown };
                        Ok(format!("Except.ok {}", one(self, &inner)?))
                    }
                    "Err" => Ok(format!("Except.error {}", one(self, &Ty::StrLit)?)),
                    _ => {
                        let (lean, payload) = self.variant(&ts.path)?;
                        if payload.len() != ts.elems.len() {
                            return Err(format!("pattern `{}`: payload arity mismatch", toks(p)));
                        }
                        let mut s = lean;
                        for (sub, t) in ts.elems.iter().zip(payload) {
                            let t = self.ty(&t)?;
                            let x = self.pat(sub, &t, false)?;
                            s.push(' ');
                            s.push_str(&if x.contains(' ') { format!("({})", x) } else { x });
                        }
                        Ok(s)
                    }
                }
            }
            Pat::Struct(ps) => {
                // `Enum::Variant { field: pat, .. }` → positional constructor pattern in declaration order
                let (lean, payload) = self.variant(&ps.path)?;
                let segs: Vec<String> = ps.path.segments.iter().map(|s| s.ident.to_string()).collect();
                let vname = segs[segs.len() - 1].clone();
                let mut en = if segs.len() >= 2 { segs[segs.len() - 2].clone() } else { self.glob_enum_of(&vname).unwrap_or_default() };
                if en == "Self" {
                    en = self.self_ty.clone().unwrap_or_default();
                }
                let en = self.reg.aliases.get(&en).cloned().unwrap_or(en);
                let names = self
                    .reg
                    .enums
                    .get(&en)
                    .and_then(|e| e.field_names.get(&vname).cloned())
                    .ok_or(format!("pattern `{}`: `{}` is not a variant with named fields", toks(p), vname))?;
                for f in &ps.fields {
                    let Member::Named(m) = &f.member else {
                        return Err(format!("pattern `{}`: unnamed member", toks(p)));
                    };
                    if !names.iter().any(|n| m == n) {
                        return Err(format!("pattern `{}`: no field `{}`", toks(p), m));
                    }
                }
                let mut s = lean;
                for (n, t) in names.iter().zip(payload) {
                    let sub = ps.fields.iter().find(|f| matches!(&f.member, Member::Named(m) if m == n));
                    let x = match sub {
                        Some(f) => {
                            let t = self.ty(&t)?;
                            self.pat(&f.pat, &t, false)?
                        }
                        None if ps.rest.is_some() => "_".to_string(),
                        None => return Err(format!("pattern `{}`: field `{}` is not matched", toks(p), n)),
                    };
                    s.push(' ');
                    s.push_str(&if x.contains(' ') { format!("({})", x) } else { x });
                }
                Ok(s)
            }
            Pat::Tuple(t) => {
                let mut parts = vec![];
                for (i, e) in t.elems.iter().enumerate() {
                    let et = match ty {
                        Ty::Tuple(v) if v.len() == t.elems.len() => v[i].clone(),
                        _ => Ty::Unknown,
                    };
                    parts.push(self.pat(e, &et, false)?);
                }
                Ok(format!("({})", parts.join(", ")))
            }
            Pat::Lit(l) => match &l.lit {
                Lit::Int(i) => Ok(i.base10_digits().to_string()),
                Lit::Bool(b) => Ok(b.value.to_string()),
                Lit::Str(s) => {
                    if *ty != Ty::StrLit {
                        return Err("string literal pattern on a scrutinee that is not a plain `&str` variable".into());
                    }
                    Ok(format!("{:?}", s.value()))
                }
                _ => Err(format!("unsupported literal pattern `{}`", toks(p))),
            },
            Pat::Or(o) if top => {
                let v: Vec<String> = o.cases.iter().map(|c| self.pat(c, ty, false)).collect::<R<_>>()?;
                Ok(v.join(" | "))
            }
            _ => Err(format!("unsupported pattern `{}`", toks(p))),
        }
    }

    /// `Enum::Variant` / `Self::Variant` → (Lean constructor, payload types).
    fn variant(&mut self, path: &syn::Path) -> R<(String, Vec<syn::Type>)> {
        let segs: Vec<String> = path.segments.iter().map(|s| s.ident.to_string()).collect();
        let v = &segs[segs.len() - 1];
        let mut en = if segs.len() < 2 {
            // unqualified: a variant brought into scope by `use Enum::*;` inside the translated body
            self.glob_enum_of(v).ok_or(format!("cannot resolve `{}` to an enum variant", toks(path)))?
        } else {
            segs[segs.len() - 2].clone()
        };
        if en == "Self" {
            en = self.self_ty.clone().ok_or("`Self` outside an impl")?;
        }
        let en = self.reg.aliases.get(&en).cloned().unwrap_or(en);
        let info = self.reg.enums.get(&en).ok_or(format!("enum `{}` is not among the translated items", en))?.clone();
        let (_, payload) =
            info.variants.iter().find(|x| &x.0 == v).ok_or(format!("enum `{}` has no variant `{}`", en, v))?;
        let q = self.qual(&en, &info.module);
        Ok((format!("{}.{}", q, v), payload.clone()))
    }

    /// The glob-imported enum (`use E::*;`) that has a variant of this name.
    fn glob_enum_of(&self, variant: &str) -> Option<String> {
        self.globs
            .iter()
            .find(|g| self.reg.enums.get(*g).map_or(false, |e| e.variants.iter().any(|x| x.0 == variant)))
            .cloned()
    }

    /// `use Enum::*;` inside a translated body: remember the enum, emit nothing.
    fn use_stmt(&mut self, u: &syn::ItemUse) -> R<()> {
        if let syn::UseTree::Path(p) = &u.tree {
            if let syn::UseTree::Glob(_) = &*p.tree {
                let name = p.ident.to_string();
                let name = self.reg.aliases.get(&name).cloned().unwrap_or(name);
                if self.reg.enums.contains_key(&name) {
                    self.globs.push(name);
                    return Ok(());
                }
                return Err(format!("`use {}::*`: `{}` is not a translated enum", name, name));
            }
        }
        Err(format!("unsupported `use` inside a body: `{}`", toks(u)))
    }

    // ------------------------------------------------------------ expressions

    fn range_chk(&mut self, node: L, ty: &Ty, literal_only: bool, src: &Expr) -> L {
        match ty {
            Ty::Int(Some(k)) => {
                let (lo, hi) = k.range();
                L::Chk(Box::new(node), vec![Cond::Range(lo, hi)])
            }
            _ => {
                if !literal_only {
                    self.untyped.push(toks(src));
                }
                node
            }
        }
    }

    pub fn expr(&mut self, e: &Expr) -> R<(L, Ty)> {
        match e {
            Expr::Paren(x) => self.expr(&x.expr),
            Expr::Group(x) => self.expr(&x.expr),
            Expr::Reference(x) => self.expr(&x.expr),
            Expr::Lit(l) => self.lit(&l.lit),
            Expr::Path(p) => self.path(p, e),
            Expr::Unary(u) => match u.op {
                UnOp::Deref(_) => self.expr(&u.expr),
                UnOp::Not(_) => {
                    let (v, t) = self.expr(&u.expr)?;
                    if t != Ty::Bool && t != Ty::Unknown {
                        return Err(format!("`!` on a non-bool in `{}`", toks(e)));
                    }
                    Ok((L::Not(Box::new(v)), Ty::Bool))
                }
                UnOp::Neg(_) => {
                    if let Expr::Lit(l) = &*u.expr {
                        let (v, t) = self.lit(&l.lit)?;
                        if let Ty::Int(_) = t {
                            return Ok((L::atom(format!("(-{})", v.flat())), t));
                        }
                    }
                    let (v, t) = self.expr(&u.expr)?;
                    if !matches!(t, Ty::Int(_)) {
                        return Err(format!("unary `-` on a non-integer in `{}`", toks(e)));
                    }
                    Ok((self.range_chk(L::Neg(Box::new(v)), &t, false, e), t))
                }
                _ => Err(format!("unsupported unary operator in `{}`", toks(e))),
            },
            Expr::Binary(b) => self.binary(b, e),
            Expr::Cast(c) => self.cast(c, e),
            Expr::If(i) => {
                if let Expr::Let(l) = &*i.cond {
                    // if let P = s { A } else { B }  ≡  match s { P => A, _ => B }
                    let (s, st) = self.scrutinee(&l.expr)?;
                    self.scopes.push(vec![]);
                    let p = self.pat(&l.pat, &st, true)?;
                    let (a, at) = self.block(&i.then_branch)?;
                    self.scopes.pop();
                    let els = i.else_branch.as_ref().ok_or("`if let` without `else`")?;
                    let (b, bt) = self.expr(&els.1)?;
                    return Ok((L::Match(Box::new(s), vec![(p, a), ("_".into(), b)]), unify(&at, &bt)));
                }
                let (c, _) = self.expr(&i.cond)?;
                let (t, tt) = self.block(&i.then_branch)?;
                let els = i.else_branch.as_ref().ok_or(format!("`if` without `else` used as a value: `{}`", toks(&i.cond)))?;
                let (f, ft) = self.expr(&els.1)?;
                let ty = unify(&tt, &ft);
                Ok((L::If(Box::new(c), Box::new(t), Box::new(f)), ty))
            }
            Expr::Match(m) => {
                let (s, st) = self.scrutinee(&m.expr)?;
                self.match_arms(&s, &st, &m.arms.iter().collect::<Vec<_>>())
            }
            Expr::Block(b) => self.block(&b.block),
            Expr::Tuple(t) => {
                let mut ls = vec![];
                let mut ts = vec![];
                for x in &t.elems {
                    let (l, t) = self.expr(x)?;
                    ls.push(l);
                    ts.push(t);
                }
                Ok((L::Tuple(ls), Ty::Tuple(ts)))
            }
            Expr::Range(r) => {
                // half-open `a..b` → the pair (a, b)
                let (Some(a), Some(b), syn::RangeLimits::HalfOpen(_)) = (&r.start, &r.end, &r.limits) else {
                    return Err(format!("only half-open ranges `a..b` are supported: `{}`", toks(e)));
                };
                let (la, ta) = self.expr(a)?;
                let (lb, tb) = self.expr(b)?;
                Ok((L::Tuple(vec![la, lb]), Ty::Tuple(vec![ta, tb])))
            }
            Expr::Field(f) => self.field(f, e),
            Expr::MethodCall(m) => self.method(m, e),
            Expr::Call(c) => self.call(c, e),
            Expr::Macro(m) => self.macro_(&m.mac, e),
            Expr::Return(_) => Err("`return` in a position the translator cannot express".into()),
            _ => Err(format!("unsupported expression `{}`", short(e))),
        }
    }

    fn lit(&mut self, l: &Lit) -> R<(L, Ty)> {
        match l {
            Lit::Int(i) => {
                let ty = if i.suffix().is_empty() {
                    Ty::Int(None)
                } else {
                    match i.suffix() {
                        "f64" => return Err("float-suffixed integer literal".into()),
                        s => Ty::Int(Some(IntK::of(s).ok_or(format!("unknown literal suffix `{}`", s))?)),
                    }
                };
                let v: u128 = i.base10_parse().map_err(|e| e.to_string())?;
                Ok((L::atom(v.to_string()), ty))
            }
            Lit::Bool(b) => Ok((L::atom(b.value.to_string()), Ty::Bool)),
            Lit::Float(f) => {
                let v: f64 = f.base10_parse().map_err(|e| e.to_string())?;
                Ok((L::atom(format!("(IQE.F64.ofBits 0x{:016X})", v.to_bits())), Ty::F64))
            }
            _ => Err(format!("unsupported literal `{}`", toks(l))),
        }
    }

    fn path(&mut self, p: &syn::ExprPath, e: &Expr) -> R<(L, Ty)> {
        let segs: Vec<String> = p.path.segments.iter().map(|s| s.ident.to_string()).collect();
        if segs.len() == 1 {
            let name = &segs[0];
            if let Some((lean, ty)) = self.lookup(name) {
                if name == "self" && !self.mutated.is_empty() {
                    // `self` as a whole value in a state-updating method: the state as updated so far
                    return Ok((L::atom(self.new_self()), ty));
                }
                return Ok((L::atom(lean), ty));
            }
            if name == "None" {
                return Ok((L::atom("none"), Ty::Opt(Box::new(Ty::Unknown))));
            }
            if let Some((m, t)) = self.reg.consts.get(name).cloned() {
                let ty = self.ty(&t)?;
                return Ok((L::atom(self.qual(name, &m)), ty));
            }
            if let Some(en) = self.glob_enum_of(name) {
                let (lean, payload) = self.variant(&p.path)?;
                if !payload.is_empty() {
                    return Err(format!("variant `{}` used without its payload", toks(e)));
                }
                return Ok((L::atom(lean), Ty::Named(en)));
            }
            if self.slice_mode && name.chars().next().map_or(false, |c| c.is_lowercase() || c == '_') {
                return Ok(self.add_free(name));
            }
            return Err(format!("path `{}` does not resolve to a local, a parameter or a translated const", name));
        }
        if segs.len() >= 2 && segs[segs.len() - 2] == "Ordering" {
            // `std::cmp::Ordering` → Lean's `Ordering`
            let l = match segs[segs.len() - 1].as_str() {
                "Less" => "Ordering.lt",
                "Equal" => "Ordering.eq",
                "Greater" => "Ordering.gt",
                o => return Err(format!("unknown `Ordering::{}`", o)),
            };
            return Ok((L::atom(l), Ty::Opaque("Ordering".into())));
        }
        if segs.len() == 2 {
            if let (Some(k), "MAX" | "MIN") = (IntK::of(&segs[0]), segs[1].as_str()) {
                let (lo, hi) = k.range();
                return Ok((L::atom(if segs[1] == "MAX" { hi } else { lo }), Ty::Int(Some(k))));
            }
        }
        let (lean, payload) = self.variant(&p.path).map_err(|m| format!("{} (in `{}`)", m, toks(e)))?;
        if !payload.is_empty() {
            return Err(format!("variant `{}` used without its payload", toks(e)));
        }
        let mut en = segs[segs.len() - 2].clone();
        if en == "Self" {
            en = self.self_ty.clone().unwrap_or(en);
        }
        let en = self.reg.aliases.get(&en).cloned().unwrap_or(en);
        Ok((L::atom(lean), Ty::Named(en)))
    }

    /// `self` with every assigned field replaced by its mutable local.
    fn new_self(&self) -> String {
        if self.mutated.is_empty() {
            return "self".into();
        }
        let upd: Vec<String> = self.mutated.iter().map(|f| format!("{} := self_{}", f, f)).collect();
        format!("{{ self with {} }}", upd.join(", "))
    }

    /// A name the slice does not bind: it becomes a parameter (default type `Int`).
    fn add_free(&mut self, text: &str) -> (L, Ty) {
        let lean = lean_ident(&text.replace('.', "_"));
        if !self.free.iter().any(|f| f.0 == text) {
            self.free.push((text.to_string(), lean.clone(), Ty::Int(None)));
        }
        (L::atom(lean), Ty::Int(None))
    }

    fn field(&mut self, f: &syn::ExprField, e: &Expr) -> R<(L, Ty)> {
        if let Some(d) = dotted(e) {
            if let Some((lean, ty)) = self.lookup(&d) {
                return Ok((L::atom(lean), ty));
            }
            let root = d.split('.').next().unwrap().to_string();
            if self.slice_mode && self.lookup(&root).is_none() {
                return Ok(self.add_free(&d));
            }
        }
        let Member::Named(m) = &f.member else {
            return Err(format!("tuple field access `{}` is outside the subset", toks(e)));
        };
        let m = m.to_string();
        let (b, bt) = match (dotted(&f.base).as_deref(), self.lookup("self")) {
            (Some("self"), Some((lean, ty))) => (L::atom(lean), ty),
            _ => self.expr(&f.base)?,
        };
        let Ty::Named(s) = &bt else {
            return Err(format!("field access on a value of untranslated type: `{}`", toks(e)));
        };
        let ty = self.field_ty(s, &m)?;
        if self.mutated.contains(&m) && dotted(&f.base).as_deref() == Some("self") {
            return Ok((L::atom(format!("self_{}", m)), ty));
        }
        Ok((L::Proj(Box::new(b), m), ty))
    }

    fn is_literal_only(e: &Expr) -> bool {
        match e {
            Expr::Lit(_) => true,
            Expr::Paren(p) => Self::is_literal_only(&p.expr),
            Expr::Binary(b) => Self::is_literal_only(&b.left) && Self::is_literal_only(&b.right),
            Expr::Unary(u) => Self::is_literal_only(&u.expr),
            _ => false,
        }
    }

    fn binary(&mut self, b: &syn::ExprBinary, e: &Expr) -> R<(L, Ty)> {
        let (l, lt) = self.expr(&b.left)?;
        let (r, rt) = self.expr(&b.right)?;
        if lt == Ty::Never || rt == Ty::Never {
            return Err(format!("diverging operand in `{}`", toks(e)));
        }
        let ty = unify(&lt, &rt);
        let lit_only = Self::is_literal_only(e);
        let bx = Box::new;
        let arith = |cx: &mut Self, op: &'static str, l: L, r: L| -> R<(L, Ty)> {
            match &ty {
                Ty::Int(_) | Ty::Unknown => {
                    let t = if ty == Ty::Unknown { Ty::Int(None) } else { ty.clone() };
                    Ok((cx.range_chk(L::Infix(op, bx(l), bx(r)), &t, lit_only, e), t))
                }
                Ty::F64 => {
                    // float arithmetic is not modelled: the operation becomes a function parameter
                    let key = format!("f64 {}", op);
                    let Some(param) = cx.cfg.ops.get(&key).cloned() else {
                        return Err(format!("f64 arithmetic `{}` is not listed in the item's `ops` (`{}`)", op, toks(e)));
                    };
                    if !cx.cast_params.iter().any(|p| p.0 == param) {
                        cx.cast_params.push((param.clone(), "IQE.F64 → IQE.F64 → IQE.F64".into()));
                    }
                    Ok((L::app(&param, vec![l, r]), Ty::F64))
                }
                _ => Err(format!("arithmetic `{}` on non-integer operands (`{}`)", op, toks(e))),
            }
        };
        let divrem = |is_div: bool, l: L, r: L| -> R<(L, Ty)> {
            let Ty::Int(Some(k)) = &ty else {
                return Err(format!("cannot determine the signedness of `{}`", toks(e)));
            };
            let (lo, hi) = k.range();
            let f = match (k.signed, is_div) {
                (false, true) => "Rs.divU",
                (false, false) => "Rs.remU",
                (true, true) => "Rs.divI",
                (true, false) => "Rs.remI",
            };
            // a literal divisor other than 0 / -1 needs no side condition
            let lit_div = matches!(&r, L::Atom(a) if a.parse::<u128>().map_or(false, |v| v != 0));
            let mut cs = if lit_div { vec![] } else { vec![Cond::NonZero(r.clone())] };
            if k.signed && !lit_div {
                // MIN / -1 and MIN % -1 overflow (panic) in Rust
                cs.push(Cond::Raw(format!("(¬({} = {} ∧ {} = -1))", l.arg(), lo, r.arg())));
                if is_div {
                    cs.push(Cond::Range(lo, hi));
                }
            }
            Ok((L::Chk(bx(L::app(f, vec![l, r])), cs), ty.clone()))
        };
        let cmp = |f: &str, l: L, r: L| -> R<(L, Ty)> { Ok((L::app(f, vec![l, r]), Ty::Bool)) };
        let structural = matches!(ty, Ty::Named(_) | Ty::Opt(_) | Ty::Res(_) | Ty::Tuple(_) | Ty::StrLit | Ty::Opaque(_));
        match &b.op {
            BinOp::Add(_) => arith(self, "+", l, r),
            BinOp::Sub(_) => arith(self, "-", l, r),
            BinOp::Mul(_) => arith(self, "*", l, r),
            BinOp::Div(_) if ty == Ty::F64 => arith(self, "/", l, r),
            BinOp::Div(_) => divrem(true, l, r),
            BinOp::Rem(_) => divrem(false, l, r),
            // `|` / `&` on bools evaluate both operands; both are pure here, so the value is that of `||` / `&&`
            // (the side conditions of the right operand are guarded as for `||` / `&&`, which is weaker: accepted
            // only when the right operand carries none)
            BinOp::BitOr(_) | BinOp::BitAnd(_) if ty == Ty::Bool => {
                let mut cs = vec![];
                r.conds(&mut cs);
                if !cs.is_empty() {
                    return Err(format!("non-short-circuit bool operator with a side-conditioned right operand (`{}`)", toks(e)));
                }
                let op = if matches!(b.op, BinOp::BitOr(_)) { "||" } else { "&&" };
                Ok((L::Infix(op, bx(l), bx(r)), Ty::Bool))
            }
            BinOp::And(_) => Ok((L::Infix("&&", bx(l), bx(r)), Ty::Bool)),
            BinOp::Or(_) => Ok((L::Infix("||", bx(l), bx(r)), Ty::Bool)),
            BinOp::Eq(_) if structural => Ok((L::Infix("==", bx(l), bx(r)), Ty::Bool)),
            BinOp::Ne(_) if structural => Ok((L::Infix("!=", bx(l), bx(r)), Ty::Bool)),
            BinOp::Eq(_) => cmp("Rs.Cmp.eq", l, r),
            BinOp::Ne(_) => cmp("Rs.ne", l, r),
            BinOp::Lt(_) => cmp("Rs.Cmp.lt", l, r),
            BinOp::Le(_) => cmp("Rs.Cmp.le", l, r),
            BinOp::Gt(_) => cmp("Rs.gt", l, r),
            BinOp::Ge(_) => cmp("Rs.ge", l, r),
            _ => Err(format!("unsupported binary operator in `{}`", toks(e))),
        }
    }

    fn cast(&mut self, c: &syn::ExprCast, e: &Expr) -> R<(L, Ty)> {
        let (v, from) = self.expr(&c.expr)?;
        let to = self.ty(&c.ty).map_err(|_| format!("cast to unsupported type in `{}`", toks(e)))?;
        if let (Ty::Int(f), Ty::Int(Some(t))) = (&from, &to) {
            // identity on Int; the side condition says the Rust cast did not truncate / reinterpret
            if f.map_or(false, |f| f.fits_in(t)) {
                return Ok((v, to));
            }
            let (lo, hi) = t.range();
            return Ok((L::Chk(Box::new(v), vec![Cond::Range(lo, hi)]), to));
        }
        let from_name = match &from {
            Ty::Int(Some(k)) => k.name.to_string(),
            Ty::F64 => "f64".into(),
            Ty::Bool => "bool".into(),
            _ => "?".into(),
        };
        let key = format!("{} as {}", from_name, toks(&c.ty).replace(' ', ""));
        if let Some(param) = self.cfg.casts.get(&key).cloned() {
            let sig = format!("{} → {}", self.lean_ty(&from), self.lean_ty(&to));
            if !self.cast_params.iter().any(|p| p.0 == param) {
                self.cast_params.push((param.clone(), sig));
            }
            return Ok((L::app(&param, vec![v]), to));
        }
        Err(format!("cast `{}` is not an integer-to-integer cast and is not listed in the item's `casts`", key))
    }

    fn scrutinee(&mut self, e: &Expr) -> R<(L, Ty)> {
        if let Some(d) = dotted(e) {
            if self.strmatch.contains(&d) && self.slice_mode && self.lookup(&d).is_none() {
                let lean = lean_ident(&d.replace('.', "_"));
                self.free.push((d.clone(), lean.clone(), Ty::StrLit));
                self.bind(&d, &lean, Ty::StrLit);
            }
        }
        self.expr(e)
    }

    /// Arms → Lean `match`. A guarded arm becomes `| p => if guard then body else REST`, where REST
    /// is a match on the same scrutinee over the *unguarded* arms before it plus every arm after it
    /// (rustc requires the unguarded arms alone to be exhaustive, so REST is exhaustive too; the
    /// earlier arms cannot fire there because the scrutinee did not match them).
    fn match_arms(&mut self, s: &L, st: &Ty, arms: &[&syn::Arm]) -> R<(L, Ty)> {
        let mut out = vec![];
        let mut ty = Ty::Never;
        // shapes of the guarded patterns so far: a later alternative of the same shape can never
        // be reached at this level (it lives on inside REST), and Lean rejects redundant alternatives
        let mut shadow: Vec<String> = vec![];
        for (i, arm) in arms.iter().enumerate() {
            if shadow.iter().any(|x| x == "_") {
                break;
            }
            self.scopes.push(vec![]);
            let p = self.pat(&arm.pat, st, true)?;
            let alts: Vec<&str> = p.split(" | ").filter(|a| !shadow.contains(&pat_shape(a))).collect();
            if alts.is_empty() {
                self.scopes.pop();
                continue;
            }
            let saved = self.arm_name.replace(toks(&arm.pat));
            let body = self.expr(&arm.body);
            self.arm_name = saved;
            let (mut body, bt) = body?;
            ty = unify(&ty, &bt);
            if let Some((_, g)) = &arm.guard {
                let (gl, _) = self.expr(g)?;
                self.scopes.pop();
                let mut rest_arms: Vec<&syn::Arm> = arms[..i].iter().copied().filter(|a| a.guard.is_none()).collect();
                rest_arms.extend(arms[i + 1..].iter().copied());
                if rest_arms.is_empty() {
                    return Err("a guarded arm is the only arm of its match".into());
                }
                let (rest, rt) = self.match_arms(s, st, &rest_arms)?;
                ty = unify(&ty, &rt);
                body = L::If(Box::new(gl), Box::new(body), Box::new(rest));
                shadow.extend(alts.iter().map(|a| pat_shape(a)));
            } else {
                self.scopes.pop();
            }
            out.push((alts.join(" | "), body));
        }
        let mut m = L::Match(Box::new(s.clone()), out);
        let dflt = if matches!(ty, Ty::Int(_)) { "0" } else { "default" };
        m.fill_unreachable(dflt);
        Ok((m, ty))
    }

    /// Pure block: `let`s followed by a tail expression.
    pub fn block(&mut self, b: &Block) -> R<(L, Ty)> {
        self.scopes.push(vec![]);
        let r = self.block_inner(b);
        self.scopes.pop();
        r
    }
    fn block_inner(&mut self, b: &Block) -> R<(L, Ty)> {
        let mut lets: Vec<(String, L)> = vec![];
        let n = b.stmts.len();
        for (i, st) in b.stmts.iter().enumerate() {
            match st {
                Stmt::Local(l) => {
                    let init = l.init.as_ref().ok_or("`let` without initialiser")?;
                    if init.diverge.is_some() {
                        return Err("`let … else` is outside the subset".into());
                    }
                    let (v, t) = self.expr(&init.expr)?;
                    let p = self.bind_local(&l.pat, t)?;
                    lets.push((p, v));
                }
                Stmt::Expr(e, None) if i + 1 == n => {
                    let (mut v, t) = self.expr(e)?;
                    for (p, val) in lets.into_iter().rev() {
                        v = L::Let(p, Box::new(val), Box::new(v));
                    }
                    return Ok((v, t));
                }
                Stmt::Macro(m) if i + 1 == n && m.semi_token.is_none() => {
                    let e = Expr::Macro(syn::ExprMacro { attrs: vec![], mac: m.mac.clone() });
                    let (mut v, t) = self.expr(&e)?;
                    for (p, val) in lets.into_iter().rev() {
                        v = L::Let(p, Box::new(val), Box::new(v));
                    }
                    return Ok((v, t));
                }
                Stmt::Item(syn::Item::Use(u)) => self.use_stmt(u)?,
                other => return Err(format!("statement with side effects in a pure block: `{}`", short(other))),
            }
        }
        Err("block without a value".into())
    }

    /// Bind the pattern of a `let`; returns the Lean binder text.
    fn bind_local(&mut self, p: &Pat, ty: Ty) -> R<String> {
        match p {
            Pat::Type(pt) => {
                let t = self.ty(&pt.ty)?;
                self.bind_local(&pt.pat, t)
            }
            Pat::Ident(i) if i.subpat.is_none() => {
                let name = i.ident.to_string();
                let lean = lean_ident(&name);
                let text = match &ty {
                    Ty::Unknown | Ty::Never => lean.clone(),
                    Ty::Opt(x) | Ty::Res(x) if **x == Ty::Unknown => lean.clone(),
                    t => format!("{} : {}", lean, self.lean_ty(t)),
                };
                self.bind(&name, &lean, ty);
                Ok(text)
            }
            Pat::Tuple(_) | Pat::Wild(_) | Pat::Paren(_) => self.pat(p, &ty, false),
            _ => Err(format!("unsupported `let` pattern `{}`", toks(p))),
        }
    }

    fn int_kind(ty: &Ty, what: &str) -> R<IntK> {
        match ty {
            Ty::Int(Some(k)) => Ok(*k),
            _ => Err(format!("cannot determine the integer type of the receiver of `{}`", what)),
        }
    }

    fn method(&mut self, m: &syn::ExprMethodCall, e: &Expr) -> R<(L, Ty)> {
        let name = m.method.to_string();
        // erased: borrow / copy plumbing
        if matches!(name.as_str(), "clone" | "as_str" | "as_ref" | "copied" | "cloned" | "to_owned" | "borrow")
            && m.args.is_empty()
        {
            return self.expr(&m.receiver);
        }
        let (r, rt) = self.expr(&m.receiver)?;
        if rt == Ty::Never {
            return Err(format!("diverging receiver in `{}`", toks(e)));
        }
        let closure = |cx: &mut Self, a: &Expr, arg_ty: &Ty| -> R<(L, Ty)> {
            let Expr::Closure(c) = a else {
                return Err(format!("`{}` needs a closure argument", name));
            };
            if c.inputs.len() != 1 {
                return Err("closure with other than one parameter".into());
            }
            cx.scopes.push(vec![]);
            let p = cx.pat(&c.inputs[0], arg_ty, false);
            let body = p.and_then(|p| cx.expr(&c.body).map(|(b, t)| (L::Lam(p, Box::new(b)), t)));
            cx.scopes.pop();
            body
        };
        let inner = match &rt {
            Ty::Opt(x) => (**x).clone(),
            _ => Ty::Unknown,
        };
        let args: Vec<&Expr> = m.args.iter().collect();
        let nargs = |n: usize| -> R<()> {
            if args.len() == n { Ok(()) } else { Err(format!("`{}` expects {} argument(s)", name, n)) }
        };
        if let Some(mc) = self.cfg.methods.get(&name).cloned() {
            let mut ls = vec![r];
            for a in &args {
                ls.push(self.expr(a)?.0);
            }
            let ty = match &mc.ret {
                Some(t) => {
                    let st: syn::Type = syn::parse_str(t).map_err(|e| format!("config method `{}` ret: {}", name, e))?;
                    self.ty(&st)?
                }
                None => Ty::Unknown,
            };
            let call = L::App(mc.lean.clone(), ls.clone());
            return Ok(match &mc.pre {
                Some(pre) => (L::Chk(Box::new(call), vec![Cond::Raw(format!("({})", L::App(pre.clone(), ls).flat()))]), ty),
                None => (call, ty),
            });
        }
        if let Ty::Named(s) = &rt {
            if let Some(fi) = self.reg.fns.get(&format!("{}::{}", s, name)).cloned() {
                return self.call_translated(&fi, vec![r], &args);
            }
        }
        match name.as_str() {
            "min" | "max" => {
                nargs(1)?;
                let (a, at) = self.expr(args[0])?;
                let ty = unify(&rt, &at);
                if !matches!(ty, Ty::Int(_)) {
                    return Err(format!("`{}` on a non-integer (`{}`)", name, toks(e)));
                }
                Ok((L::app(&format!("Rs.{}", name), vec![r, a]), ty))
            }
            "clamp" => {
                nargs(2)?;
                let (lo, lt) = self.expr(args[0])?;
                let (hi, ht) = self.expr(args[1])?;
                let ty = unify(&unify(&rt, &lt), &ht);
                if !matches!(ty, Ty::Int(_)) {
                    return Err(format!("`clamp` on a non-integer (`{}`)", toks(e)));
                }
                let node = L::app("Rs.clamp", vec![r, lo.clone(), hi.clone()]);
                Ok((L::Chk(Box::new(node), vec![Cond::ClampOk(lo, hi)]), ty))
            }
            "saturating_sub" | "saturating_add" | "div_ceil" => {
                nargs(1)?;
                let (a, at) = self.expr(args[0])?;
                let ty = unify(&rt, &at);
                let k = Self::int_kind(&ty, &name)?;
                if k.signed {
                    return Err(format!("signed `{}` has no prelude counterpart", name));
                }
                Ok(match name.as_str() {
                    "saturating_sub" => (L::app("Rs.satSubU", vec![r, a]), ty),
                    "saturating_add" => (L::app("Rs.satAddU", vec![L::atom(k.range().1), r, a]), ty),
                    _ => (L::Chk(Box::new(L::app("Rs.divCeilU", vec![r, a.clone()])), vec![Cond::NonZero(a)]), ty),
                })
            }
            "abs" => {
                nargs(0)?;
                let k = Self::int_kind(&rt, "abs")?;
                let (lo, hi) = k.range();
                Ok((L::Chk(Box::new(L::app("Rs.abs", vec![r])), vec![Cond::Range(lo, hi)]), rt))
            }
            "checked_add" => {
                nargs(1)?;
                let (a, at) = self.expr(args[0])?;
                let ty = unify(&rt, &at);
                let (lo, hi) = Self::int_kind(&ty, "checked_add")?.range();
                Ok((L::app("Rs.checkedAdd", vec![L::atom(lo), L::atom(hi), r, a]), Ty::Opt(Box::new(ty))))
            }
            "is_some" | "is_none" => {
                nargs(0)?;
                let f = if name == "is_some" { "Option.isSome" } else { "Option.isNone" };
                Ok((L::app(f, vec![r]), Ty::Bool))
            }
            "unwrap_or" => {
                nargs(1)?;
                let (d, dt) = self.expr(args[0])?;
                Ok((L::app("Rs.unwrapOr", vec![r, d]), unify(&inner, &dt)))
            }
            "map_or" => {
                nargs(2)?;
                let (d, dt) = self.expr(args[0])?;
                let (f, ft) = closure(self, args[1], &inner)?;
                Ok((L::app("Rs.mapOr", vec![r, d, f]), unify(&dt, &ft)))
            }
            "map" => {
                nargs(1)?;
                if !matches!(rt, Ty::Opt(_)) {
                    return Err(format!("`map` on something that is not known to be an Option (`{}`)", toks(e)));
                }
                let (f, ft) = closure(self, args[0], &inner)?;
                Ok((L::app("Option.map", vec![f, r]), Ty::Opt(Box::new(ft))))
            }
            _ => Err(format!("method `{}` is not in the whitelist nor in the item's `methods`", name)),
        }
    }

    /// Call of a function translated earlier in this run; its `_inRange` becomes a side condition.
    fn call_translated(&mut self, fi: &FnInfo, mut ls: Vec<L>, args: &[&Expr]) -> R<(L, Ty)> {
        if fi.mut_self || fi.extra_params > 0 {
            return Err(format!("call of `{}` (state-updating or cast-parameterised) is outside the subset", fi.lean));
        }
        for a in args {
            ls.push(self.expr(a)?.0);
        }
        let f = self.qual(&fi.lean, &fi.module);
        let call = L::App(f.clone(), ls.clone());
        if fi.trivial_in_range {
            return Ok((call, fi.ret.clone()));
        }
        let pre = format!("({})", L::App(format!("{}_inRange", f), ls).flat());
        Ok((L::Chk(Box::new(call), vec![Cond::Raw(pre)]), fi.ret.clone()))
    }

    fn call(&mut self, c: &syn::ExprCall, e: &Expr) -> R<(L, Ty)> {
        let Expr::Path(p) = &*c.func else {
            return Err(format!("unsupported call `{}`", short(e)));
        };
        let head = toks(&p.path).replace(' ', "");
        let args: Vec<&Expr> = c.args.iter().collect();
        match head.as_str() {
            "Some" | "Ok" if args.len() == 1 => {
                let (v, t) = self.expr(args[0])?;
                return Ok(if head == "Some" {
                    (L::app("some", vec![v]), Ty::Opt(Box::new(t)))
                } else {
                    (L::app("Except.ok", vec![v]), Ty::Res(Box::new(t)))
                });
            }
            "Err" => {
                // the payload is erased: only which arm produced the error is kept
                self.err_n += 1;
                let tag = self.arm_name.clone().unwrap_or(format!("err#{}", self.err_n));
                return Ok((L::app("Except.error", vec![L::atom(format!("{:?}", tag))]), Ty::Res(Box::new(Ty::Unknown))));
            }
            _ => {}
        }
        if self.cfg.erase_calls.contains(&head) && args.len() == 1 {
            // transparent wrapper (`OrderedFloat(x)`): the value itself
            return self.expr(args[0]);
        }
        if let Some(cc) = self.cfg.calls.get(&head).cloned() {
            // a function outside the subset: it becomes a parameter of the generated definition
            let mut ls = vec![];
            let mut sig = vec![];
            for a in &args {
                let (l, t) = self.expr(a)?;
                ls.push(l);
                sig.push(self.lean_ty_p(&t, true));
            }
            let ret = match &cc.ret {
                Some(t) => {
                    let st: syn::Type = syn::parse_str(t).map_err(|e| format!("config call `{}` ret: {}", head, e))?;
                    self.ty(&st)?
                }
                None => return Err(format!("config call `{}` needs a `ret` type", head)),
            };
            sig.push(self.lean_ty_p(&ret, true));
            if !self.cast_params.iter().any(|p| p.0 == cc.lean) {
                self.cast_params.push((cc.lean.clone(), sig.join(" → ")));
            }
            return Ok((L::App(cc.lean.clone(), ls), ret));
        }
        let segs: Vec<String> = p.path.segments.iter().map(|s| s.ident.to_string()).collect();
        let key = match segs.as_slice() {
            [f] => f.clone(),
            [t, f] if t == "Self" => format!("{}::{}", self.self_ty.clone().unwrap_or_default(), f),
            [t, f] => format!("{}::{}", t, f),
            _ => head.clone(),
        };
        if let Some(fi) = self.reg.fns.get(&key).cloned() {
            return self.call_translated(&fi, vec![], &args);
        }
        // enum variant with payload
        if segs.len() >= 2 || self.glob_enum_of(&segs[0]).is_some() {
            if let Ok((lean, payload)) = self.variant(&p.path) {
                if payload.len() == args.len() {
                    let mut ls = vec![];
                    for a in &args {
                        ls.push(self.expr(a)?.0);
                    }
                    let mut en = if segs.len() >= 2 {
                        segs[segs.len() - 2].clone()
                    } else {
                        self.glob_enum_of(&segs[0]).unwrap_or_default()
                    };
                    if en == "Self" {
                        en = self.self_ty.clone().unwrap_or(en);
                    }
                    let en = self.reg.aliases.get(&en).cloned().unwrap_or(en);
                    return Ok((L::App(lean, ls), Ty::Named(en)));
                }
            }
        }
        Err(format!("call of `{}`, which is not a translated item listed before this one", head))
    }

    fn macro_(&mut self, mac: &syn::Macro, e: &Expr) -> R<(L, Ty)> {
        let name = mac.path.segments.last().map(|s| s.ident.to_string()).unwrap_or_default();
        match name.as_str() {
            "unreachable" => Ok((L::Unreachable("default".into()), Ty::Never)),
            "matches" => {
                let (scrut, pat, guard) = mac
                    .parse_body_with(|input: syn::parse::ParseStream| {
                        let e: Expr = input.parse()?;
                        input.parse::<syn::Token![,]>()?;
                        let p = Pat::parse_multi_with_leading_vert(input)?;
                        let g = if input.peek(syn::Token![if]) {
                            input.parse::<syn::Token![if]>()?;
                            Some(input.parse::<Expr>()?)
                        } else {
                            None
                        };
                        let _ = input.parse::<Option<syn::Token![,]>>()?;
                        Ok((e, p, g))
                    })
                    .map_err(|e| format!("cannot parse `matches!`: {}", e))?;
                let (s, st) = self.scrutinee(&scrut)?;
                self.scopes.push(vec![]);
                let p = self.pat(&pat, &st, true);
                let g = match (&p, guard) {
                    (Ok(_), Some(g)) => self.expr(&g).map(|x| x.0),
                    _ => Ok(L::atom("true")),
                };
                self.scopes.pop();
                Ok((L::Match(Box::new(s), vec![(p?, g?), ("_".into(), L::atom("false"))]), Ty::Bool))
            }
            _ => Err(format!("macro `{}!` is outside the subset (`{}`)", name, short(e))),
        }
    }

    // ------------------------------------------------------------ do-mode

    fn do_block(&mut self, b: &Block, tail: Tail) -> R<(Vec<S>, Ty)> {
        self.scopes.push(vec![]);
        let r = self.do_block_inner(b, tail);
        self.scopes.pop();
        r
    }
    fn do_block_inner(&mut self, b: &Block, tail: Tail) -> R<(Vec<S>, Ty)> {
        let mut out = vec![];
        let mut ty = Ty::Never;
        let n = b.stmts.len();
        let mut has_tail = false;
        for (i, st) in b.stmts.iter().enumerate() {
            match st {
                Stmt::Local(l) => {
                    let init = l.init.as_ref().ok_or("`let` without initialiser")?;
                    if init.diverge.is_some() {
                        return Err("`let … else` is outside the subset".into());
                    }
                    if needs_do_expr(&init.expr) {
                        let (mut ss, t) = self.do_tail(&init.expr, Tail::Value)?;
                        if ss.len() != 1 || !matches!(ss[0], S::If { .. } | S::Match { .. }) {
                            return Err("a `let` initialiser with early return must be a single `if` or `match`".into());
                        }
                        let pat = self.bind_local(&l.pat, t)?;
                        out.push(S::LetDo { pat, body: Box::new(ss.remove(0)) });
                    } else {
                        let (v, t) = self.expr(&init.expr)?;
                        let mutable = matches!(&l.pat, Pat::Ident(i) if i.mutability.is_some());
                        let pat = self.bind_local(&l.pat, t)?;
                        out.push(S::Let { pat, mutable, val: v });
                    }
                }
                Stmt::Expr(e, None) if i + 1 == n => {
                    has_tail = true;
                    let (ss, t) = self.do_tail(e, tail)?;
                    out.extend(ss);
                    ty = t;
                }
                Stmt::Expr(e, _) => out.extend(self.do_stmt(e)?),
                Stmt::Item(syn::Item::Use(u)) => self.use_stmt(u)?,
                other => return Err(format!("unsupported statement `{}`", short(other))),
            }
        }
        let ends_in_return = matches!(out.last(), Some(S::Return(_)));
        if !has_tail && tail != Tail::Unit && !ends_in_return {
            return Err("block without a value where one is needed".into());
        }
        Ok((out, ty))
    }

    /// Expression in statement position (its value is discarded).
    fn do_stmt(&mut self, e: &Expr) -> R<Vec<S>> {
        match e {
            Expr::Return(r) => {
                let v = r.expr.as_ref().ok_or("`return` without a value")?;
                Ok(vec![S::Return(self.expr(v)?.0)])
            }
            Expr::Assign(a) => {
                let (name, _) = self.assign_target(&a.left)?;
                Ok(vec![S::Assign { name, val: self.expr(&a.right)?.0 }])
            }
            Expr::Binary(b) if is_assign_op(&b.op) => {
                let (name, _) = self.assign_target(&b.left)?;
                // `x op= e`  ≡  `x = x op e`
                let plain = Expr::Binary(syn::ExprBinary {
                    attrs: vec![],
                    left: b.left.clone(),
                    op: assign_base(&b.op).unwrap(),
                    right: b.right.clone(),
                });
                Ok(vec![S::Assign { name, val: self.expr(&plain)?.0 }])
            }
            Expr::If(i) if !matches!(&*i.cond, Expr::Let(_)) => {
                let (c, _) = self.expr(&i.cond)?;
                let (t, _) = self.do_block(&i.then_branch, Tail::Unit)?;
                let e = match &i.else_branch {
                    Some((_, e)) => self.do_stmt(e)?,
                    None => vec![],
                };
                Ok(vec![S::If { c, t, e }])
            }
            Expr::If(i) => {
                // statement-level `if let P = s { A } [else { B }]`  ≡  `match s { P => A, _ => B }`
                let Expr::Let(l) = &*i.cond else { unreachable!() };
                let (s, st) = self.scrutinee(&l.expr)?;
                self.scopes.push(vec![]);
                let p = self.pat(&l.pat, &st, true);
                let t = p.and_then(|p| self.do_block(&i.then_branch, Tail::Unit).map(|(b, _)| (p, b)));
                self.scopes.pop();
                let (p, t) = t?;
                let e = match &i.else_branch {
                    Some((_, e)) => self.do_stmt(e)?,
                    None => vec![],
                };
                Ok(vec![S::Match { s, arms: vec![(p, t), ("_".into(), e)] }])
            }
            Expr::Match(m) => {
                let (s, st) = self.scrutinee(&m.expr)?;
                let mut arms = vec![];
                for arm in &m.arms {
                    if arm.guard.is_some() {
                        return Err("guarded arm in a statement-level match".into());
                    }
                    self.scopes.push(vec![]);
                    let p = self.pat(&arm.pat, &st, true);
                    let body = p.and_then(|p| self.do_stmt(&arm.body).map(|b| (p, b)));
                    self.scopes.pop();
                    arms.push(body?);
                }
                Ok(vec![S::Match { s, arms }])
            }
            Expr::Block(b) => Ok(self.do_block(&b.block, Tail::Unit)?.0),
            _ => Err(format!("unsupported statement `{}`", short(e))),
        }
    }

    /// Expression whose value is the value of the enclosing block.
    fn do_tail(&mut self, e: &Expr, tail: Tail) -> R<(Vec<S>, Ty)> {
        if !needs_do_expr(e) {
            if tail == Tail::Unit {
                return Ok((self.do_stmt(e)?, Ty::Never));
            }
            let (v, t) = self.expr(e)?;
            return Ok((vec![if tail == Tail::Return { S::Return(v) } else { S::Value(v) }], t));
        }
        match e {
            Expr::Return(_) => Ok((self.do_stmt(e)?, Ty::Never)),
            Expr::If(i) if tail == Tail::Unit && matches!(&*i.cond, Expr::Let(_)) => Ok((self.do_stmt(e)?, Ty::Never)),
            Expr::Assign(_) if tail == Tail::Unit => Ok((self.do_stmt(e)?, Ty::Never)),
            Expr::Binary(b) if tail == Tail::Unit && is_assign_op(&b.op) => Ok((self.do_stmt(e)?, Ty::Never)),
            Expr::If(i) if !matches!(&*i.cond, Expr::Let(_)) => {
                let (c, _) = self.expr(&i.cond)?;
                let (t, tt) = self.do_block(&i.then_branch, tail)?;
                let (f, ft) = match &i.else_branch {
                    Some((_, e)) => self.do_tail(e, tail)?,
                    None if tail == Tail::Unit => (vec![], Ty::Never),
                    None => return Err("`if` without `else` used as a value".into()),
                };
                Ok((vec![S::If { c, t, e: f }], unify(&tt, &ft)))
            }
            Expr::Match(m) => {
                let (s, st) = self.scrutinee(&m.expr)?;
                let mut arms = vec![];
                let mut ty = Ty::Never;
                for arm in &m.arms {
                    if arm.guard.is_some() {
                        return Err("guarded arm in a match containing `return`".into());
                    }
                    self.scopes.push(vec![]);
                    let p = self.pat(&arm.pat, &st, true);
                    let body = p.and_then(|p| self.do_tail(&arm.body, tail).map(|(b, t)| (p, b, t)));
                    self.scopes.pop();
                    let (p, b, t) = body?;
                    ty = unify(&ty, &t);
                    arms.push((p, b));
                }
                Ok((vec![S::Match { s, arms }], ty))
            }
            Expr::Block(b) => self.do_block(&b.block, tail),
            Expr::Paren(p) => self.do_tail(&p.expr, tail),
            _ => Err(format!("early return / assignment nested inside `{}` cannot be expressed", short(e))),
        }
    }

    fn assign_target(&mut self, left: &Expr) -> R<(String, Ty)> {
        if let Some(f) = self_field(left) {
            let s = self.self_ty.clone().ok_or("assignment to `self.` outside an impl")?;
            let ty = self.field_ty(&s, &f)?;
            return Ok((format!("self_{}", f), ty));
        }
        if let Some(d) = dotted(left) {
            if !d.contains('.') {
                if let Some((lean, ty)) = self.lookup(&d) {
                    return Ok((lean, ty));
                }
            }
        }
        Err(format!("unsupported assignment target `{}`", toks(left)))
    }
}

/// A pattern with its binders blanked out (`Kind.B n` → `Kind.B _`).
fn pat_shape(p: &str) -> String {
    let blank = |w: &str| {
        let binder = w.chars().next().map_or(false, |c| c.is_lowercase() || c == '_')
            && !matches!(w, "some" | "none" | "true" | "false")
            && !w.contains('.');
        if binder { "_".to_string() } else { w.to_string() }
    };
    let mut out = String::new();
    let mut word = String::new();
    let mut in_str = false;
    for c in p.chars() {
        if c == '"' {
            in_str = !in_str;
        }
        if !in_str && (c.is_alphanumeric() || c == '_' || c == '.') {
            word.push(c);
        } else {
            out.push_str(&blank(&word));
            word.clear();
            out.push(c);
        }
    }
    out.push_str(&blank(&word));
    out
}

#[derive(Clone, Copy, PartialEq)]
enum Tail {
    /// function level: the tail value is returned
    Return,
    /// value of a nested block bound by `let x ← …`
    Value,
    /// no value
    Unit,
}

fn short<T: ToTokens>(x: &T) -> String {
    let s = toks(x);
    if s.chars().count() > 80 {
        format!("{} …", s.chars().take(80).collect::<String>())
    } else {
        s
    }
}

// ---------------------------------------------------------------- item-level entry points

fn params_text(ps: &[(String, String)]) -> String {
    ps.iter().map(|(n, t)| format!(" ({} : {})", n, t)).collect()
}

/// `lo ≤ p ∧ p ≤ hi` for every integer(-carrying) parameter.
fn arg_range(cx: &mut Cx, name: &str, ty: &Ty) -> Option<String> {
    match ty {
        Ty::Named(s) if cx.reg.structs.contains_key(s) => {
            let t = cx.lean_ty(ty);
            Some(format!("({}.inRange {})", t, name))
        }
        _ => arg_range_field(name, ty),
    }
}

/// Assemble the Lean text for a function-like item from its translated body.
struct Body {
    pure_: Option<L>,
    stmts: Vec<S>,
}

#[allow(clippy::too_many_arguments)]
fn emit(
    cx: &mut Cx,
    lean_name: &str,
    doc: &str,
    params: Vec<(String, String, Ty)>,
    ret: Ty,
    body: Body,
    mut_self: bool,
) -> R<FnOut> {
    let mut binders = String::new();
    for (g, cmp) in cx.generics.clone() {
        binders.push_str(&format!(" {{{} : Type}}", g));
        if cmp {
            binders.push_str(&format!(" [Rs.Cmp {}]", g));
        }
    }
    let mut ps: Vec<(String, String)> = vec![];
    for (n, _, t) in &params {
        let lt = cx.lean_ty(t);
        ps.push((n.clone(), lt));
    }
    let extra = cx.cast_params.clone();
    ps.extend(extra.iter().cloned());
    let sig = format!("{}{}", binders, params_text(&ps));
    let ret_l = cx.lean_ty(&ret);
    let mut out = String::new();
    let mut defs = vec![];
    out.push_str(&format!("/-- {} -/\n", doc));
    let trivial;
    match (&body.pure_, mut_self) {
        (Some(l), _) => {
            if l.count_unreachable(false) != l.count_unreachable(true) {
                return Err("`unreachable!()` in an operand position".into());
            }
            out.push_str(&format!("def {}{} : {} :=\n{}\n", lean_name, sig, ret_l, l.pretty(2)));
            defs.push(format!("{}{} : {}", lean_name, sig, ret_l));
            let mut cs = vec![];
            l.conds(&mut cs);
            trivial = cs.is_empty();
            let prop = if cs.is_empty() { "True".to_string() } else { cs.join(" ∧\n  ") };
            out.push_str(&format!("def {}_inRange{} : Prop :=\n  {}\n", lean_name, sig, prop));
            defs.push(format!("{}_inRange{} : Prop", lean_name, sig));
            if let Some(r) = l.reach() {
                // only the parameters the predicate depends on
                let used: Vec<(String, String)> =
                    ps.iter().filter(|(n, _)| has_ident(&r, n)).cloned().collect();
                let rsig = format!("{}{}", binders, params_text(&used));
                out.push_str(&format!("/-- false exactly where `{}` hits `unreachable!()` -/\n", lean_name));
                out.push_str(&format!("def {}_reachable{} : Bool :=\n  {}\n", lean_name, rsig, r));
                defs.push(format!("{}_reachable{} : Bool", lean_name, rsig));
            }
        }
        (None, _) => {
            let self_l = cx.self_ty.clone().map(|s| cx.lean_ty(&Ty::Named(s))).unwrap_or_default();
            let fields: Vec<String> = cx.mutated.iter().cloned().collect();
            let new_self = cx.new_self();
            let full_ret = if mut_self { format!("({} × {})", self_l, ret_l) } else { ret_l.clone() };
            let ret_fn = |v: &L| if mut_self { format!("({}, {})", new_self, v.flat()) } else { v.flat() };
            let mut init = String::new();
            for f in &fields {
                init.push_str(&format!("  let mut self_{} := self.{}\n", f, f));
            }
            let run = render_do(&body.stmts, 2, &DoMode { check: false, ret: &ret_fn });
            out.push_str(&format!("def {}{} : {} := Id.run do\n{}{}", lean_name, sig, full_ret, init, run));
            defs.push(format!("{}{} : {}", lean_name, sig, full_ret));
            let chk = render_do(&body.stmts, 2, &DoMode { check: true, ret: &ret_fn });
            trivial = !chk.contains("ok := ok ∧");
            out.push_str(&format!(
                "/-- same control flow as `{}`; collects the side condition of every node that is evaluated -/\n",
                lean_name
            ));
            out.push_str(&format!(
                "def {}_inRange{} : Prop := Id.run do\n  let mut ok : Prop := True\n{}{}",
                lean_name, sig, init, chk
            ));
            defs.push(format!("{}_inRange{} : Prop", lean_name, sig));
        }
    }
    let ranges: Vec<String> = params.iter().filter_map(|(n, _, t)| arg_range(cx, n, t)).collect();
    let prop = if ranges.is_empty() { "True".to_string() } else { ranges.join(" ∧ ") };
    out.push_str(&format!("def {}_argsInRange{} : Prop :=\n  {}\n", lean_name, sig, prop));
    defs.push(format!("{}_argsInRange{} : Prop", lean_name, sig));
    let mut seen = BTreeSet::new();
    for u in &cx.untyped {
        if seen.insert(u.clone()) {
            out.push_str(&format!("-- untyped arithmetic node: {}\n", u));
        }
    }
    let info = FnInfo {
        module: cx.module.to_string(),
        lean: lean_name.to_string(),
        ret,
        trivial_in_range: trivial,
        mut_self,
        extra_params: extra.len(),
    };
    Ok(FnOut { lean: out, info, defs })
}

fn has_ident(text: &str, name: &str) -> bool {
    text.split(|c: char| !(c.is_alphanumeric() || c == '_' || c == '.')).any(|w| w == name || w.starts_with(&format!("{}.", name)))
}

/// Whole `fn` (free function or method).
pub fn translate_fn(cx: &mut Cx, lean_name: &str, doc: &str, sig: &syn::Signature, body: &Block) -> R<FnOut> {
    for g in &sig.generics.params {
        match g {
            syn::GenericParam::Type(t) => {
                let cmp = t.bounds.iter().any(|b| {
                    let s = toks(b);
                    s.contains("PartialOrd") || s.contains("Ord") || s.contains("PartialEq")
                });
                cx.generics.push((t.ident.to_string(), cmp));
            }
            syn::GenericParam::Lifetime(_) => {}
            _ => return Err("const generics are outside the subset".into()),
        }
    }
    let mut scan = Scan::default();
    scan.visit_block(body);
    cx.mutated = scan.mutated;
    cx.strmatch = scan.strmatch;
    let mut params: Vec<(String, String, Ty)> = vec![];
    let mut mut_self = false;
    for inp in &sig.inputs {
        match inp {
            syn::FnArg::Receiver(r) => {
                let s = cx.self_ty.clone().ok_or("`self` outside an impl")?;
                mut_self = r.mutability.is_some() && r.reference.is_some();
                cx.bind("self", "self", Ty::Named(s.clone()));
                params.push(("self".into(), "self".into(), Ty::Named(s)));
            }
            syn::FnArg::Typed(pt) => {
                let Pat::Ident(id) = &*pt.pat else {
                    return Err(format!("unsupported parameter pattern `{}`", toks(&pt.pat)));
                };
                let name = id.ident.to_string();
                let mut ty = cx.ty(&pt.ty)?;
                if ty == Ty::Str && cx.strmatch.contains(&name) {
                    ty = Ty::StrLit;
                }
                let lean = lean_ident(&name);
                cx.bind(&name, &lean, ty.clone());
                params.push((lean, name, ty));
            }
        }
    }
    if !mut_self && !cx.mutated.is_empty() {
        return Err("assignment to `self` fields in a method that does not take `&mut self`".into());
    }
    let ret = match &sig.output {
        syn::ReturnType::Default => return Err("function without a return value".into()),
        syn::ReturnType::Type(_, t) => cx.ty(t)?,
    };
    let body = if mut_self || needs_do_block(body) {
        let (stmts, _) = cx.do_block(body, Tail::Return)?;
        Body { pure_: None, stmts }
    } else {
        let (l, _) = cx.block(body)?;
        Body { pure_: Some(l), stmts: vec![] }
    };
    emit(cx, lean_name, doc, params, ret, body, mut_self)
}

/// One expression cut out of a larger function; `params`: (lean name, rust type text, rust path text).
pub fn translate_slice(
    cx: &mut Cx,
    lean_name: &str,
    doc: &str,
    expr: &Expr,
    params: &[(String, String, String)],
) -> R<FnOut> {
    cx.slice_mode = true;
    let mut scan = Scan::default();
    scan.visit_expr(expr);
    cx.strmatch = scan.strmatch;
    let mut ps: Vec<(String, String, Ty)> = vec![];
    for (lean, ty, path) in params {
        let st: syn::Type = syn::parse_str(ty).map_err(|e| format!("slice parameter type `{}`: {}", ty, e))?;
        let mut t = cx.ty(&st)?;
        if t == Ty::Str && cx.strmatch.contains(path) {
            t = Ty::StrLit;
        }
        let lean = lean_ident(lean);
        cx.bind(path, &lean, t.clone());
        ps.push((lean, path.clone(), t));
    }
    if needs_do_expr(expr) {
        return Err("slice contains `return` or assignment".into());
    }
    let (mut l, ty) = cx.expr(expr)?;
    let dflt = if matches!(ty, Ty::Int(_)) { "0" } else { "default" };
    l.fill_unreachable(dflt);
    for (path, lean, t) in cx.free.clone() {
        ps.push((lean, path, t));
    }
    emit(cx, lean_name, doc, ps, ty, Body { pure_: Some(l), stmts: vec![] }, false)
}

/// `const NAME: T = expr;` → `def NAME : Int := expr` (arithmetic kept structurally).
pub fn translate_const(cx: &mut Cx, name: &str, doc: &str, c: &syn::ItemConst) -> R<(String, Vec<String>)> {
    let ty = cx.ty(&c.ty)?;
    let (l, _) = cx.expr(&c.expr)?;
    let lt = cx.lean_ty(&ty);
    Ok((format!("/-- {} -/\ndef {} : {} := {}\n", doc, name, lt, l.flat()), vec![format!("{} : {}", name, lt)]))
}

/// `only`: when non-empty, the listed variants alone are translated (a `match` that names another variant fails).
pub fn translate_enum(cx: &mut Cx, doc: &str, e: &syn::ItemEnum, only: &[String]) -> R<(String, Vec<String>)> {
    let name = e.ident.to_string();
    for o in only {
        if !e.variants.iter().any(|v| v.ident == o) {
            return Err(format!("enum `{}` has no variant `{}`", name, o));
        }
    }
    let vs: Vec<&syn::Variant> = e.variants.iter().filter(|v| only.is_empty() || only.iter().any(|o| v.ident == o)).collect();
    let doc = if only.is_empty() { doc.to_string() } else { format!("{} (only the listed variants)", doc) };
    emit_enum(cx, &name, &doc, &vs)
}

/// An enum of an external crate, declared in `items.json` (`variants`: Rust variant syntax).
pub fn translate_extern_enum(cx: &mut Cx, name: &str, doc: &str, variants: &[syn::Variant]) -> R<(String, Vec<String>)> {
    emit_enum(cx, name, doc, &variants.iter().collect::<Vec<_>>())
}

fn emit_enum(cx: &mut Cx, name: &str, doc: &str, variants: &[&syn::Variant]) -> R<(String, Vec<String>)> {
    let mut out = format!("/-- {} -/\ninductive {} where\n", doc, name);
    for v in variants {
        let mut line = format!("  | {}", v.ident);
        match &v.fields {
            syn::Fields::Unit => {}
            syn::Fields::Unnamed(u) => {
                for (i, f) in u.unnamed.iter().enumerate() {
                    let t = cx.ty(&f.ty)?;
                    line.push_str(&format!(" (x{} : {})", i, cx.lean_ty(&t)));
                }
            }
            syn::Fields::Named(n) => {
                for f in &n.named {
                    let t = cx.ty(&f.ty)?;
                    let id = f.ident.as_ref().map(|i| i.to_string()).unwrap_or_default();
                    line.push_str(&format!(" ({} : {})", lean_ident(&id), cx.lean_ty(&t)));
                }
            }
        }
        out.push_str(&line);
        out.push('\n');
    }
    out.push_str("deriving DecidableEq, Repr, Inhabited\n");
    Ok((out, vec![format!("inductive {}", name)]))
}

/// The patterns (with guards) of a `match`, in source order, as a list of strings: pins the dispatch order
/// that per-arm items (`kind: arm`) do not see.
pub fn translate_arm_list(lean_name: &str, doc: &str, m: &syn::ExprMatch) -> (String, Vec<String>) {
    let squash = |s: String| s.chars().filter(|c| !c.is_whitespace()).collect::<String>();
    let items: Vec<String> = m
        .arms
        .iter()
        .map(|a| {
            let mut t = squash(toks(&a.pat));
            if let Some((_, g)) = &a.guard {
                t.push_str(" if ");
                t.push_str(&squash(toks(g)));
            }
            format!("{:?}", t)
        })
        .collect();
    let body = items.join(",\n   ");
    (
        format!("/-- {} -/\ndef {} : List String :=\n  [{}]\n", doc, lean_name, body),
        vec![format!("{} : List String", lean_name)],
    )
}

fn assigned_names(ss: &[S], out: &mut Vec<String>) {
    for s in ss {
        match s {
            S::Assign { name, .. } => {
                if !out.contains(name) {
                    out.push(name.clone());
                }
            }
            S::If { t, e, .. } => {
                assigned_names(t, out);
                assigned_names(e, out);
            }
            S::Match { arms, .. } => arms.iter().for_each(|(_, b)| assigned_names(b, out)),
            S::LetDo { body, .. } => assigned_names(std::slice::from_ref(&**body), out),
            _ => {}
        }
    }
}

/// One arm of a `match`: the variables bound by the arm's pattern become the parameters. A pure body is
/// translated as an expression. A body that assigns through the pattern's `&mut` bindings becomes an
/// `Id.run do` block that returns the matched value of tuple component `state` (the whole scrutinee when
/// `state` is `None`) rebuilt from the updated bindings — the new value of the `&mut` place that was matched.
pub fn translate_arm(
    cx: &mut Cx,
    lean_name: &str,
    doc: &str,
    arm: &syn::Arm,
    scrutinee_ty: &syn::Type,
    state: Option<usize>,
) -> R<FnOut> {
    if arm.guard.is_some() {
        return Err("guarded arm".into());
    }
    let st = cx.ty(scrutinee_ty)?;
    cx.scopes.push(vec![]);
    let _whole = cx.pat(&arm.pat, &st, false)?;
    let bound: Vec<(String, String, Ty)> =
        cx.scopes.last().unwrap().iter().map(|v| (v.lean.clone(), v.key.clone(), v.ty.clone())).collect();
    {
        let mut seen = BTreeSet::new();
        for b in &bound {
            if !seen.insert(b.0.clone()) {
                return Err(format!("pattern binds `{}` twice", b.0));
            }
        }
    }
    if !needs_do_expr(&arm.body) {
        let (mut l, ty) = cx.expr(&arm.body)?;
        let dflt = if matches!(ty, Ty::Int(_)) { "0" } else { "default" };
        l.fill_unreachable(dflt);
        return emit(cx, lean_name, doc, bound, ty, Body { pure_: Some(l), stmts: vec![] }, false);
    }
    // the value that is rebuilt: component `state` of a tuple pattern, or the whole pattern
    let (sub_pat, sub_ty): (&Pat, Ty) = match (state, &arm.pat, &st) {
        (Some(i), Pat::Tuple(t), Ty::Tuple(ts)) if i < t.elems.len() && ts.len() == t.elems.len() => (&t.elems[i], ts[i].clone()),
        (None, p, t) => (p, t.clone()),
        _ => return Err("`state` does not select a component of a tuple pattern".into()),
    };
    // render the sub-pattern as an expression over the same variables (a scratch scope keeps the bindings unique)
    cx.scopes.push(vec![]);
    let rebuilt = cx.pat(sub_pat, &sub_ty, false);
    cx.scopes.pop();
    let rebuilt = rebuilt?;
    if rebuilt.split(|c: char| !(c.is_alphanumeric() || c == '_' || c == '.')).any(|w| w == "_") {
        return Err("the state pattern has a wildcard: the updated value cannot be rebuilt".into());
    }
    let mut stmts = cx.do_stmt(&arm.body)?;
    let mut assigned = vec![];
    assigned_names(&stmts, &mut assigned);
    stmts.push(S::Return(L::atom(rebuilt)));
    let ret = sub_ty;
    // emission (do-mode, no `self`)
    let mut ps: Vec<(String, String)> = vec![];
    for (n, _, t) in &bound {
        let lt = cx.lean_ty(t);
        ps.push((n.clone(), lt));
    }
    let extra = cx.cast_params.clone();
    ps.extend(extra.iter().cloned());
    let sig = params_text(&ps);
    let ret_l = cx.lean_ty(&ret);
    let mut init = String::new();
    for a in &assigned {
        init.push_str(&format!("  let mut {} := {}\n", a, a));
    }
    let ret_fn = |v: &L| v.flat();
    let run = render_do(&stmts, 2, &DoMode { check: false, ret: &ret_fn });
    let chk = render_do(&stmts, 2, &DoMode { check: true, ret: &ret_fn });
    let trivial = !chk.contains("ok := ok ∧");
    let mut out = format!("/-- {} -/\n", doc);
    out.push_str(&format!("def {}{} : {} := Id.run do\n{}{}", lean_name, sig, ret_l, init, run));
    out.push_str(&format!(
        "/-- same control flow as `{}`; collects the side condition of every node that is evaluated -/\n",
        lean_name
    ));
    out.push_str(&format!(
        "def {}_inRange{} : Prop := Id.run do\n  let mut ok : Prop := True\n{}{}",
        lean_name, sig, init, chk
    ));
    let ranges: Vec<String> = bound.iter().filter_map(|(n, _, t)| arg_range(cx, n, t)).collect();
    let prop = if ranges.is_empty() { "True".to_string() } else { ranges.join(" ∧ ") };
    out.push_str(&format!("def {}_argsInRange{} : Prop :=\n  {}\n", lean_name, sig, prop));
    let defs = vec![
        format!("{}{} : {}", lean_name, sig, ret_l),
        format!("{}_inRange{} : Prop", lean_name, sig),
        format!("{}_argsInRange{} : Prop", lean_name, sig),
    ];
    let info = FnInfo {
        module: cx.module.to_string(),
        lean: lean_name.to_string(),
        ret,
        trivial_in_range: trivial,
        mut_self: false,
        extra_params: extra.len(),
    };
    Ok(FnOut { lean: out, info, defs })
}

pub fn translate_struct(cx: &mut Cx, doc: &str, s: &syn::ItemStruct, kept: &[String]) -> R<(String, Vec<String>)> {
    let name = s.ident.to_string();
    let mut out = format!("/-- {} -/\nstructure {} where\n", doc, name);
    let mut ranges = vec![];
    for k in kept {
        let f = s
            .fields
            .iter()
            .find(|f| f.ident.as_ref().map_or(false, |i| i == k))
            .ok_or(format!("struct `{}` has no field `{}`", name, k))?;
        let t = cx.ty(&f.ty)?;
        out.push_str(&format!("  {} : {}\n", k, cx.lean_ty(&t)));
        if let Some(r) = arg_range_field(&format!("s.{}", k), &t) {
            ranges.push(r);
        }
    }
    out.push_str("deriving DecidableEq, Repr\n");
    out.push_str(&format!(
        "/-- every translated integer field lies in the range of its Rust type -/\ndef {}.inRange (s : {}) : Prop :=\n  {}\n",
        name,
        name,
        if ranges.is_empty() { "True".to_string() } else { ranges.join(" ∧ ") }
    ));
    Ok((out, vec![format!("structure {}", name), format!("{}.inRange (s : {}) : Prop", name, name)]))
}

fn arg_range_field(name: &str, ty: &Ty) -> Option<String> {
    match ty {
        Ty::Int(Some(k)) => {
            let (lo, hi) = k.range();
            Some(format!("({} ≤ {} ∧ {} ≤ {})", lo, name, name, hi))
        }
        Ty::Opt(x) => match &**x {
            Ty::Int(Some(k)) => {
                let (lo, hi) = k.range();
                Some(format!("(∀ v, {} = some v → {} ≤ v ∧ v ≤ {})", name, lo, hi))
            }
            _ => None,
        },
        _ => None,
    }
}
